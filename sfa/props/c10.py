'''C10 equals is a content equivalence; hashable variants honour the hash contract.'''
from sfa.report import Ctx
from sfa.rules import recache
from sfa.rules import blockrules
from sfa.rules import narules
from sfa.rules import forwardrules
from sfa.rules import symm

LEVEL_TEXT = (
    'Static decision of the structural clause of C10: over the seven equals implementations and the two HE '
    'classes, (H1) the both-missing mask is one missing-value term per operand under `if skipna`, (H2) every '
    'result-deciding test is invariant under exchanging self and other and name/dtype/class comparisons are '
    'gated by their option, (H3) nested equals calls compare like components and forward every option, '
    '(H4) the identity shortcut, (H5) __eq__/__ne__/__hash__ of SeriesHE/FrameHE. If every test and the mask '
    'are symmetric terms and the element comparison is symmetric, equals is symmetric; a violated obligation '
    'is a concrete asymmetric construct. Sibling defaults: a parameter taken by the same-named method of several container classes has the same default in each (confirmed exceptions listed in sfa/rules/forwardrules.py). Finite case analysis over the dtype kinds: in TypeBlocks / Series / Index equals, with skipna requested and for every kind that can hold a missing value, no answer is returned after the elementwise comparison before the missing masks were consulted. Slice cardinality: every `<slice>.indices(n)` result in core is consumed whole or any stop - start span is computed with the step (single-row detection, assigned widths and fill limits count stepped slices correctly). Identity shortcut: every equals(..., skipna=...) takes its `other is self` shortcut only when skipna holds (with skipna=False a container holding NaN equals neither its copy nor itself). Fresh operands: every read of the lazily cached Index._labels / IndexHierarchy._blocks in equals (of self and of other) is dominated by the staleness guard, so a grown grow-only operand is compared by its current labels and dtype (B.recache). Not decided: transitivity, NaN/None/NaT element semantics, symmetry '
    'of == on user objects.')


CLAIM = dict(
    text=LEVEL_TEXT,
    technique='structural symmetry comparison (AST equality modulo self<->other renaming) + option-forwarding dataflow over 7 equals implementations and 2 HE classes',
    design_ref='DESIGN.md section 2.H and section 3 C10',
)


def run(ctx: Ctx) -> None:
    symm.h_equals(ctx)
    symm.h_he(ctx)
    forwardrules.sibling_defaults(ctx, prefixes=('equals', '__eq__'), suffix='equals', floor=3)
    narules.nullable_kinds(ctx)
    narules.identity_shortcut_skipna(ctx)
    blockrules.slice_cardinality(ctx)
    recache.check(ctx, 'Index', floor_reads=36)
    recache.check(ctx, 'IndexHierarchy', floor_reads=38)
