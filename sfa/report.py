'''Obligations, three-valued verdicts, floors, known findings, evidence and replay files.'''
from __future__ import annotations

import ast
import json
import os
import time
import typing as tp

from sfa.model import AnalysisError
from sfa.model import FuncInfo
from sfa.model import Program
from sfa.model import norm

VERIF = os.path.dirname(os.path.dirname(os.path.abspath(__file__)))
KNOWN_FINDINGS = os.path.join(VERIF, 'known_findings.json')

DISCHARGED = 'discharged'
VIOLATED = 'violated'
UNDECIDED = 'undecided'

TRUSTED_BASE = [
    'Python semantics of the statement kinds modelled by sfa/flow.py; container slots are not rebound via setattr/__dict__',
    'NumPy view/copy table: basic indexing, .T, reshape, view inherit flags.writeable; advanced indexing, copy, astype, np.* results and operator results are fresh writable arrays',
    'automap raises ValueError on duplicate keys; Executor.map yields in submission order; csv.writer/csv.reader with equal dialect are inverses',
    'call resolution is by class-hierarchy analysis, by name where receiver types are unknown (rules state what they accept)',
]


class Ob:
    __slots__ = ('rule', 'func', 'file', 'line', 'key', 'status', 'detail', 'known')

    def __init__(self, rule, func, file, line, key, status, detail):
        self.rule = rule
        self.func = func
        self.file = file
        self.line = line
        self.key = key
        self.status = status
        self.detail = detail
        self.known: tp.Optional[str] = None

    def ident(self) -> tp.Tuple[str, str, str]:
        return (self.rule, self.func, self.key)

    def to_json(self) -> tp.Dict[str, tp.Any]:
        d = {'rule': self.rule, 'function': self.func, 'site': f'{self.file}:{self.line}',
             'construct': self.key, 'status': self.status, 'facts': self.detail}
        if self.known:
            d['known_finding'] = self.known
        return d


class Ctx:
    '''One run of one property check.'''

    def __init__(self, prog: Program, prop: str, tier: str):
        self.prog = prog
        self.prop = prop
        self.tier = tier
        self.obs: tp.List[Ob] = []
        self._seen: tp.Dict[tp.Tuple[str, str, str, str, int], Ob] = {}
        self.floors: tp.Dict[str, int] = {}
        self.rule_text: tp.Dict[str, str] = {}
        self.notes: tp.List[str] = []
        self.extra: tp.Dict[str, tp.Any] = {}
        self.t0 = time.time()

    def rule(self, rule: str, text: str, floor: int = 0) -> None:
        '''Declare a rule: its statement and the minimum number of obligations it must
        enumerate (discharged + violated + undecided) on any tree — the count confirmed by
        hand on the pinned tree, lowered by a margin that tolerates refactoring but not a
        rule that silently stopped matching.'''
        self.rule_text[rule] = text
        self.floors[rule] = floor

    def ob(self, rule: str, f: tp.Union[FuncInfo, str, None], node: tp.Optional[ast.AST],
           status: str, detail: str, key: tp.Optional[str] = None,
           file: tp.Optional[str] = None) -> Ob:
        if rule not in self.rule_text:
            raise AnalysisError(f'internal: rule {rule} not declared')
        if isinstance(f, FuncInfo):
            fq, ff = f.qualname, f.file
        else:
            fq, ff = (f or '<module>'), (file or '')
        line = getattr(node, 'lineno', 0) if node is not None else 0
        k = key if key is not None else (norm(node)[:200] if node is not None else '')
        ob = Ob(rule, fq, file or ff, line, k, status, detail)
        ident = (rule, fq, k, status, line)
        if ident in self._seen:          # the same obligation reached along another path / world
            return self._seen[ident]
        self._seen[ident] = ob
        self.obs.append(ob)
        return ob

    def ok(self, rule, f, node, detail, key=None, file=None) -> Ob:
        return self.ob(rule, f, node, DISCHARGED, detail, key, file)

    def bad(self, rule, f, node, detail, key=None, file=None) -> Ob:
        return self.ob(rule, f, node, VIOLATED, detail, key, file)

    def unk(self, rule, f, node, detail, key=None, file=None) -> Ob:
        return self.ob(rule, f, node, UNDECIDED, detail, key, file)

    def require(self, cond: bool, what: str) -> None:
        if not cond:
            raise AnalysisError(f'anchor vanished: {what}')


def load_known() -> tp.List[tp.Dict[str, tp.Any]]:
    if not os.path.exists(KNOWN_FINDINGS):
        return []
    with open(KNOWN_FINDINGS, encoding='utf-8') as f:
        data = json.load(f)
    return data.get('findings', [])


def finish(ctx: Ctx, seed: int, evidence_dir: str, level_text: str,
           selftest: tp.Optional[tp.Dict[str, tp.Any]] = None,
           write_evidence: bool = True) -> int:
    '''Apply floors and known findings, write evidence + replay files, print, return exit code.'''
    prop = ctx.prop
    # de-duplicate obligations (the same site may be visited through two entry points)
    seen: tp.Dict[tp.Tuple[str, str, str, int], Ob] = {}
    order = {VIOLATED: 2, UNDECIDED: 1, DISCHARGED: 0}
    for ob in ctx.obs:
        k = ob.ident() + (ob.line,)
        if k not in seen or order[ob.status] > order[seen[k].status]:
            seen[k] = ob
    obs = list(seen.values())

    per_rule: tp.Dict[str, tp.Dict[str, int]] = {}
    for r in ctx.rule_text:
        per_rule[r] = {'obligations': 0, DISCHARGED: 0, UNDECIDED: 0, VIOLATED: 0, 'floor': ctx.floors.get(r, 0)}
    for ob in obs:
        per_rule[ob.rule]['obligations'] += 1
        per_rule[ob.rule][ob.status] += 1
    for r, c in per_rule.items():
        if c['obligations'] < c['floor']:
            raise AnalysisError(
                f'rule {r} enumerated {c["obligations"]} obligations, below its floor {c["floor"]}: '
                'the rule stopped matching (anchor drift) — refusing a vacuous pass')

    known = [k for k in load_known() if k.get('status') == 'known']
    violations = [ob for ob in obs if ob.status == VIOLATED]
    new_violations: tp.List[Ob] = []
    for ob in violations:
        for k in known:
            if k['rule'] == ob.rule and k['function'] == ob.func and k['construct'] == ob.key:
                ob.known = k.get('id', 'known')
                print(f'KNOWN-FINDING: property={prop} {k.get("id", "")} {ob.rule} at {ob.func}: {k.get("what", ob.detail)}')
                break
        else:
            new_violations.append(ob)

    os.makedirs(evidence_dir, exist_ok=True)
    replay_dir = os.path.join(evidence_dir, 'replay')
    replay_paths = []
    if new_violations:
        os.makedirs(replay_dir, exist_ok=True)
        for i, ob in enumerate(new_violations):
            path = os.path.join(replay_dir, f'{prop}-{i}.json')
            with open(path, 'w', encoding='utf-8') as f:
                json.dump({'property': prop, 'rule_text': ctx.rule_text.get(ob.rule, ''), **ob.to_json()}, f, indent=1)
            replay_paths.append(path)

    samples = []
    by_rule_seen: tp.Dict[str, int] = {}
    for ob in obs:
        n = by_rule_seen.get(ob.rule, 0)
        if n < 2 or ob.status != DISCHARGED:
            if len(samples) < 60:
                samples.append(ob.to_json())
            by_rule_seen[ob.rule] = n + 1

    n_ob = len(obs)
    n_dis = sum(1 for ob in obs if ob.status == DISCHARGED)
    n_und = sum(1 for ob in obs if ob.status == UNDECIDED)
    wall = time.time() - ctx.t0
    coverage: tp.Dict[str, tp.Any] = {
        'explanation': level_text,
        'obligations': n_ob,
        'discharged': n_dis,
        'undecided': n_und,
        'violated': len(violations),
        'violated_known_findings': len(violations) - len(new_violations),
        'evaluations': n_ob,
        'distinct_nontrivial': len({ob.ident() for ob in obs}),
        'rule': 'one obligation per (rule, function, construct) site enumerated from the syntax trees of /repo; distinct = distinct (rule, function, normalised construct)',
        'rules': {r: dict(text=ctx.rule_text[r], **per_rule[r]) for r in ctx.rule_text},
        'samples': samples,
        'analysed': ctx.prog.stats(),
        'checker_cmd': f'./check {prop} --tier {ctx.tier}',
        'trusted_base': TRUSTED_BASE,
        'exhaustive': True,
        'notes': ctx.notes,
    }
    coverage.update(ctx.extra)
    if selftest is not None:
        coverage['selftest'] = selftest
    evidence = {
        'property_id': prop,
        'tier': ctx.tier,
        'seed': seed,
        'level': 'other',
        'coverage': coverage,
        'assumptions': TRUSTED_BASE,
        'wall_s': round(wall, 3),
        'violations': len(new_violations),
    }
    if write_evidence:
        path = os.path.join(evidence_dir, f'{prop}.json')
        _validate(evidence)
        tmp = path + '.tmp'
        with open(tmp, 'w', encoding='utf-8') as f:
            json.dump(evidence, f, indent=1)
        os.replace(tmp, path)

    print(f'{prop} [{ctx.tier}] analysed {ctx.prog.stats()["units"]} units / {ctx.prog.stats()["functions"]} functions; '
          f'obligations={n_ob} discharged={n_dis} undecided={n_und} violated={len(violations)} '
          f'(known={len(violations) - len(new_violations)}) wall={wall:.2f}s')
    for r, c in per_rule.items():
        print(f'  {r}: {c["obligations"]} obligations, {c[DISCHARGED]} discharged, {c[UNDECIDED]} undecided, {c[VIOLATED]} violated (floor {c["floor"]})')
    for ob, path in zip(new_violations, replay_paths):
        print(f'  violated: {ob.rule} {ob.file}:{ob.line} in {ob.func}: `{ob.key}` — {ob.detail}')
        print(f'VIOLATION property={prop} replay={path}')
    return 1 if new_violations else 0


def _validate(evidence: tp.Dict[str, tp.Any]) -> None:
    schema_path = '/root/.vp/EVIDENCE.schema.json'
    try:
        import jsonschema  # type: ignore
    except Exception:
        return
    if not os.path.exists(schema_path):
        return
    with open(schema_path, encoding='utf-8') as f:
        schema = json.load(f)
    try:
        jsonschema.validate(evidence, schema)
    except jsonschema.ValidationError as e:  # pragma: no cover
        raise AnalysisError(f'evidence does not validate: {e.message}')
