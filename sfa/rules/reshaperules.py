'''C20 rules: positional relabelling in pivot is preceded by an order reconciliation; set_index / unset_index / relabel_shift move
columns into labels and back pairing each label with the row it came from.'''
from __future__ import annotations

import ast
import typing as tp

from sfa import roles
from sfa.model import AnalysisError
from sfa.model import call_name
from sfa.model import kwarg
from sfa.model import norm
from sfa.model import walk_local
from sfa.report import Ctx
from sfa.symenv import SymEnv


def pivot_positional_relabel(ctx: Ctx) -> None:
    R = 'I.pivot-positional-relabel'
    ctx.rule(R, 'Frame.pivot relabels its result positionally with the index built from the unique index-field values; on every path on which that '
             'index is applied (index depth > 1) the rows are known to be in that index\'s order: the intermediate Frame was reindexed to its flat form, '
             'or was concatenated with index= its flat form, or its index was tested equal to it (decided per path on the symbolic store; '
             'lemma used: not (d > 1) and d >= 1 give d == 1, d = len(index_fields) with index_fields[0] evaluated on that path)', floor=3)
    f = ctx.prog.method('Frame', 'pivot', inherited=False)
    calls = [c for c in walk_local(f.node) if isinstance(c, ast.Call) and isinstance(c.func, ast.Attribute) and c.func.attr == 'relabel' and kwarg(c, 'index') is not None]
    ctx.require(len(calls) == 1, 'Frame.pivot relabels its result once')
    call = calls[0]
    # follow only what the receiver and the index argument are made of
    tracked = {x.id for x in ast.walk(call) if isinstance(x, ast.Name)}
    for depth in range(3):
        for a in list(ast.walk(f.node)):
            if isinstance(a, (ast.Assign, ast.AnnAssign)) and a.value is not None:
                tg = a.targets if isinstance(a, ast.Assign) else [a.target]
                if any(isinstance(x, ast.Name) and x.id in tracked for t in tg for x in ast.walk(t)):
                    # index= / reindex arguments of the calls that build the receiver name the order evidence: follow them too
                    for x in ast.walk(a.value):
                        if isinstance(x, ast.Name) and (depth == 0 or not isinstance(a.value, ast.Call) or
                                                        any(isinstance(k, ast.keyword) and k.arg == 'index' and any(y is x for y in ast.walk(k.value)) for k in ast.walk(a.value)) or
                                                        any(isinstance(c, ast.Call) and isinstance(c.func, ast.Attribute) and c.func.attr == 'reindex' and c.args and any(y is x for y in ast.walk(c.args[0]))
                                                            for c in ast.walk(a.value))):
                            tracked.add(x.id)
    recv = call.func.value
    rname = recv.id if isinstance(recv, ast.Name) else None
    ctx.require(rname is not None, 'the relabelled Frame is a local')
    # the receiver is tracked as "how it was last bound" only one level deep: its constructor call text
    se = SymEnv(f.node, watch=lambda x: x is call, max_worlds=2048, max_len=6000, track={rname} | {n for n in tracked if n != rname},
                keep_fact=lambda t: (('> 1' in t or '== 1' in t) and 'index_fields' in t and 'columns' not in t) or '.index.equals(' in t).run()
    n = 0
    for w in sorted(se.at(call)):
        facts = se.facts(w)
        if any(k.endswith(' > 1') and v is False and facts.get(k[:-len(' > 1')] + ' == 1') is False for k, v in facts.items()):
            continue                # d <= 0: excluded by the lemma d >= 1
        idx = se.resolved(kwarg(call, 'index'), w)
        if isinstance(idx, ast.IfExp) and isinstance(idx.body, ast.Constant) and idx.body.value is None and isinstance(idx.test, ast.Compare) \
                and isinstance(idx.test.ops[0], ast.Eq) and norm(idx.test.comparators[0]) == '1':
            d = norm(idx.test.left)
            gt = facts.get(f'{d} > 1')
            if gt is False and facts.get(f'{d} == 1') is False:
                continue            # d <= 0: excluded by the lemma d >= 1
            if gt is False:
                idx = idx.body
            elif gt is True:
                idx = idx.orelse
        n += 1
        it = norm(idx)
        key = f'pivot:relabel@{"+".join(sorted(k for k, v in facts.items() if v and len(k) < 40)) or "-"}'
        if isinstance(idx, ast.Constant) and idx.value is None:
            ctx.ok(R, f, call, 'single index field: the index is not applied positionally', key=key)
            continue
        rt = se.text(recv, w)
        flat = {it, f'{it}.flat()'}
        # names that denote the index or its flat form in this world
        names = {k for k, v in dict(w[0]).items() if v in flat} | flat
        ev = []
        for c in ast.walk(se.subst(recv, dict(w[0]))):
            if isinstance(c, ast.Call) and isinstance(c.func, ast.Attribute) and c.func.attr == 'reindex' and c.args and norm(c.args[0]) in names:
                ev.append('reindexed to the index')
            if isinstance(c, ast.Call) and isinstance(c.func, ast.Attribute) and c.func.attr == 'from_concat' and kwarg(c, 'index') is not None and norm(kwarg(c, 'index')) in names:
                ev.append('concatenated on the index')
        for k, v in facts.items():
            if v and '.index.equals(' in k and any(k.rstrip(')').endswith(nm) or k.lstrip('~').rstrip(')').endswith(nm) for nm in names | {x for x in dict(w[0])}):
                ev.append('index tested equal')
        (ctx.ok if ev else ctx.bad)(R, f, call, f'rows are in the order of the applied index ({ev[0]})' if ev else
                                    f'the index `{it[:50]}` is applied positionally to `{rt[:70]}`, whose rows are in group-iteration order: nothing on this path establishes that the two orders '
                                    'agree, so cells are attached to the labels of other groups', key=key)
    ctx.require(n >= 3, 'paths reaching the relabel of pivot')


def _ctor_at_return(se: SymEnv, f) -> tp.Iterator[tp.Tuple[ast.Return, tp.Any, ast.Call]]:
    for node, worlds in se.all_sites():
        if not isinstance(node, ast.Return) or node.value is None:
            continue
        for w in sorted(worlds):
            v = se.resolved(node.value, w)
            if isinstance(v, ast.Call) and norm(v.func) == 'self.__class__':
                yield node, w, v


def set_index_pairs(ctx: Ctx) -> None:
    R = 'E.pair[set-index]'
    ctx.rule(R, 'per path (symbolic store) of set_index / set_index_hierarchy / unset_index: the new index is built from the addressed column(s) of self\'s own blocks, '
             'all rows in row order; with drop the same positional key removes the column from the blocks and from the column labels, without drop blocks and '
             'columns are self\'s own; when rows are reordered for the hierarchy, index and row permutation come from one rehierarch call and the permutation is '
             'applied to the blocks; unset_index puts the index values in front of the blocks and the index names in front of the column labels; the name is kept', floor=8)
    prog = ctx.prog
    n = 0
    # ---- set_index
    f = prog.method('Frame', 'set_index', inherited=False)
    se = SymEnv(f.node, watch=lambda x: isinstance(x, ast.Return), keep_fact=lambda t: t == 'drop' or t.startswith('isinstance(')).run()
    iloc = 'self._columns._loc_to_iloc(column)'
    for node, w, v in _ctor_at_return(se, f):
        n += 1
        facts = se.facts(w)
        drop = facts.get('drop')
        data = norm(v.args[0]) if v.args else norm(kwarg(v, 'data'))
        cols, idx, nm = norm(kwarg(v, 'columns')), norm(kwarg(v, 'index')), norm(kwarg(v, 'name'))
        problems = []
        if f'self._blocks._extract_array(column_key={iloc})' not in idx:
            problems.append(f'the index is built from `{idx[:60]}`, not from the addressed column of self\'s blocks')
        if 'row_key=' in idx:
            problems.append('the index values are a row selection of the column')
        if drop:
            if data != f'TypeBlocks.from_blocks(self._blocks._drop_blocks(column_key={iloc}))':
                problems.append(f'with drop the data are `{data[:60]}`')
            if cols != f'self._columns._drop_iloc({iloc})':
                problems.append(f'with drop the columns are `{cols[:60]}`: data and labels do not lose the same column')
        elif drop is False:
            if data != 'self._blocks' or cols != 'self._columns':
                problems.append(f'without drop the result pairs `{data[:40]}` with columns `{cols[:40]}`')
            if norm(kwarg(v, 'own_data')) != 'False' or norm(kwarg(v, 'own_columns')) != 'False':
                problems.append('without drop self\'s own blocks / columns are handed over as owned')
        if nm != 'self._name':
            problems.append('the name is not kept')
        (ctx.bad if problems else ctx.ok)(R, f, node, '; '.join(problems) or f'drop={drop}: index from the addressed column; data and labels agree', key=f'set_index:drop={drop}:{"int" if any(k.startswith("isinstance(") and val for k, val in facts.items()) else "multi"}')
    # ---- set_index_hierarchy
    g = prog.method('Frame', 'set_index_hierarchy', inherited=False)
    se = SymEnv(g.node, watch=lambda x: isinstance(x, ast.Return), keep_fact=lambda t: t in ('drop', 'reorder_for_hierarchy')).run()
    for node, w, v in _ctor_at_return(se, g):
        facts = se.facts(w)
        drop, reorder = facts.get('drop'), facts.get('reorder_for_hierarchy')
        if drop is None or reorder is None:
            continue
        n += 1
        data = norm(v.args[0]) if v.args else ''
        cols, idx, nm = norm(kwarg(v, 'columns')), norm(kwarg(v, 'index')), norm(kwarg(v, 'name'))
        problems = []
        if 'self._blocks._extract(column_key=self._columns._loc_to_iloc(' not in idx:
            problems.append(f'the hierarchy is built from `{idx[:60]}`, not from the addressed columns of self\'s blocks')
        if reorder:
            if not (idx.startswith('rehierarch_from_type_blocks(') and idx.endswith('[0]')):
                problems.append('with reorder_for_hierarchy the index is not the first result of rehierarch_from_type_blocks')
            else:
                perm = idx[:-3] + '[1]'
                if f'self._blocks._extract(row_key={perm})' not in data:
                    problems.append('the rows are not reordered with the permutation that produced the index')
        else:
            if not idx.startswith('IndexHierarchy._from_type_blocks('):
                problems.append(f'the index is `{idx[:50]}`')
            if '_extract(row_key=' in data:
                problems.append('rows are reordered although the index keeps row order')
        if drop:
            if not data.startswith('TypeBlocks.from_blocks(') or '._drop_blocks(column_key=self._columns._loc_to_iloc(' not in data:
                problems.append(f'with drop the data are `{data[:60]}`')
            if not cols.startswith('self._columns._drop_iloc(self._columns._loc_to_iloc('):
                problems.append(f'with drop the columns are `{cols[:60]}`')
        else:
            if cols != 'self._columns':
                problems.append(f'without drop the columns are `{cols[:40]}`')
        if nm != 'self._name':
            problems.append('the name is not kept')
        (ctx.bad if problems else ctx.ok)(R, g, node, '; '.join(problems) or f'drop={drop}, reorder={reorder}: index and rows in one order; data and labels agree', key=f'set_index_hierarchy:drop={drop}:reorder={reorder}')
    # ---- unset_index
    u = prog.method('Frame', 'unset_index', inherited=False)
    gens = [nf for nf in u.nested if nf.is_generator()]
    problems = []
    if len(gens) != 1:
        problems.append('no single block generator')
    else:
        ys = [y for y in walk_local(gens[0].node) if isinstance(y, (ast.Yield, ast.YieldFrom))]
        first = ys[0] if ys else None
        if not (isinstance(first, ast.Yield) and norm(first.value) in ('self.index.values', 'self._index.values')):
            problems.append('the index values are not the first block')
        loops = [lp for lp in walk_local(gens[0].node) if isinstance(lp, ast.For) and norm(lp.iter) == 'self._blocks._blocks']
        if len(loops) != 1 or not (first is not None and loops and first.lineno < loops[0].lineno):
            problems.append('self\'s own blocks do not follow, in block order')
    ex = roles.Expander(u.node)
    ctor = [c for c in walk_local(u.node) if isinstance(c, ast.Call) and norm(c.func) == 'self.__class__']
    for c in ctor:
        cols = ex.expand(kwarg(c, 'columns'))
        want = {'chain(names, self._columns.values)', 'chain(self._index.names, self._columns.values)'}
        if not (cols and cols <= want):
            problems.append(f'column labels are {sorted(cols)}: the labels of the index columns do not come first, in front of self\'s own column labels')
        if norm(kwarg(c, 'index')) != 'None':
            problems.append('the old index is kept as index')
        data = ex.expand(c.args[0] if c.args else kwarg(c, 'data'))
        if gens and not all(f'{gens[0].name}' in t for t in data):
            problems.append('the data are not built from the block generator')
    n += 1
    (ctx.bad if problems else ctx.ok)(R, u, u.node, '; '.join(problems) or 'index values and index names are put in front of blocks and column labels, in the same order', key='unset_index')
    ctx.require(n >= 8, 'set_index / set_index_hierarchy / unset_index result paths')


def relabel_shift_pairs(ctx: Ctx) -> None:
    R = 'E.pair[relabel-shift]'
    ctx.rule(R, 'relabel_shift_out moves levels of a hierarchy into the data: the arrays moved are `<level table>._extract(column_key=depth_level)` (in the order of the '
             'caller\'s depth_level) and the labels they receive are read from the level names by iterating that same depth_level in that same order '
             '(`names[i] for i in depth_level`, or `names[depth_level]` for an integer); the levels that remain keep ascending order on both sides '
             '(`_drop_blocks(column_key=depth_level)` and the names whose position is not in depth_level); new labels come first, in front of the existing ones, as the '
             'new blocks come first', floor=5)
    f = ctx.prog.method('Frame', 'relabel_shift_out', inherited=False)
    key_p = f.params[1] if len(f.params) > 1 else 'depth_level'
    ex = roles.Expander(f.node)
    # data side
    ext = [c for c in walk_local(f.node) if isinstance(c, ast.Call) and isinstance(c.func, ast.Attribute) and c.func.attr == '_extract' and kwarg(c, 'column_key') is not None
           and kwarg(c, 'row_key') is None]
    good = len(ext) == 1 and norm(kwarg(ext[0], 'column_key')) == key_p
    (ctx.ok if good else ctx.bad)(R, f, ext[0] if ext else f.node, f'moved arrays are selected with column_key={key_p}' if good else 'the moved arrays are not selected with the caller\'s depth_level', key='moved-arrays')
    drop = [c for c in walk_local(f.node) if isinstance(c, ast.Call) and isinstance(c.func, ast.Attribute) and c.func.attr == '_drop_blocks']
    good = len(drop) == 1 and norm(kwarg(drop[0], 'column_key')) == key_p
    (ctx.ok if good else ctx.bad)(R, f, drop[0] if drop else f.node, f'remaining levels are what is left after dropping column_key={key_p}' if good else 'the remaining levels are not the complement of depth_level', key='remaining-arrays')
    # label side: the first operand of chain(...) in the from_labels call, over all its definitions
    chains = [c.args[0] for c in walk_local(f.node) if isinstance(c, ast.Call) and isinstance(c.func, ast.Attribute) and c.func.attr == 'from_labels' and c.args
              and isinstance(c.args[0], ast.Call) and call_name(c.args[0]) == 'chain' and len(c.args[0].args) == 2]
    ctx.require(len(chains) >= 2, 'relabel_shift_out chains new labels in front of the existing ones (per axis)')
    first_names = {c.args[0].id for c in chains if isinstance(c.args[0], ast.Name)}
    ctx.require(len(first_names) == 1, 'one local carries the new labels')
    nl = next(iter(first_names))
    defs = [a for a in walk_local(f.node) if isinstance(a, ast.Assign) and norm(a.targets[0]) == nl]
    n_d = 0
    for a in defs:
        v = a.value
        if isinstance(v, ast.Call) and call_name(v) == 'tuple' and len(v.args) == 1:
            v = v.args[0]
        n_d += 1
        if isinstance(v, (ast.GeneratorExp, ast.ListComp)):
            g0 = v.generators[0]
            good = len(v.generators) == 1 and not g0.ifs and norm(g0.iter) == key_p and isinstance(g0.target, ast.Name) \
                and isinstance(v.elt, ast.Subscript) and isinstance(v.elt.slice, ast.Name) and v.elt.slice.id == g0.target.id
            (ctx.ok if good else ctx.bad)(R, f, a, f'labels read by iterating {key_p} in order' if good else
                                          f'the new labels are built as `{norm(v)[:70]}`: not by iterating {key_p} in its own order, while the arrays come in that order — '
                                          'for a depth_level that is not ascending, level values sit under the wrong label', key=f'labels#{n_d}')
        elif isinstance(v, ast.Tuple) and len(v.elts) == 1 and isinstance(v.elts[0], ast.Subscript):
            good = norm(v.elts[0].slice) == key_p
            (ctx.ok if good else ctx.bad)(R, f, a, f'single label names[{key_p}]' if good else f'single label `{norm(v)}` is not names[{key_p}]', key=f'labels#{n_d}')
        else:
            ctx.ok(R, f, a, f'depth-1 index: `{norm(v)[:50]}`', key=f'labels#{n_d}')
    # new labels and new blocks both in front
    blocks_front = [c for c in walk_local(f.node) if isinstance(c, ast.Call) and call_name(c) == 'chain' and len(c.args) == 2 and norm(c.args[1]) == 'self._blocks._blocks']
    good = bool(blocks_front) and all(isinstance(c.args[0], ast.Name) for c in blocks_front)
    (ctx.ok if good else ctx.bad)(R, f, blocks_front[0] if blocks_front else f.node, 'moved arrays are put in front of self\'s own blocks, as the new labels are put in front' if good else
                                  'the moved arrays are not put in front of self\'s own blocks', key='front')


def join_key_sources(ctx: Ctx) -> None:
    R = 'I.join-key-sources'
    ctx.rule(R, 'a join key may be taken from index depths, from columns, or from both ("one or both" — Frame._join requires at least one per side): in '
             'container_util.arrays_from_index_frame, on the path where both options are given, the arrays of the index depths and the arrays of the columns are both '
             'yielded; if the second source is an alternative of the first (elif) the column part of a composite key is silently dropped and rows pair on the index alone', floor=1)
    from sfa import flow
    prog = ctx.prog
    f = prog.func('container_util.arrays_from_index_frame')
    opts = [p for p in f.params[1:]]
    ctx.require(len(opts) == 2, 'arrays_from_index_frame(container, <index depths>, <columns>)')

    class C(flow.Client):
        def __init__(self):
            self.yielded: tp.List[ast.AST] = []

        def join(self, a, b):
            return a

        def refine(self, atom, st, truth):
            # scenario: both options are given
            if isinstance(atom, ast.Compare) and len(atom.ops) == 1 and isinstance(atom.left, ast.Name) and atom.left.id in opts \
                    and isinstance(atom.comparators[0], ast.Constant) and atom.comparators[0].value is None:
                given = isinstance(atom.ops[0], ast.IsNot)
                if given != truth:
                    return None
            return st

        def on_yield(self, node, st):
            if not any(n is node for n in self.yielded):
                self.yielded.append(node)
            return st

        def on_expr(self, node, st):
            if isinstance(node, (ast.Yield, ast.YieldFrom)) and not any(n is node for n in self.yielded):
                self.yielded.append(node)
            return st
    c = C()
    flow.Engine(c).run(f.node.body, True)
    src_index = [y for y in c.yielded if any(isinstance(x, ast.Attribute) and x.attr in ('index', '_index') for x in ast.walk(y))]
    src_cols = [y for y in c.yielded if any(isinstance(x, ast.Attribute) and x.attr in ('_blocks', 'columns', '_columns') for x in ast.walk(y)) and y not in src_index]
    key = 'arrays_from_index_frame:both-given'
    if src_index and src_cols:
        ctx.ok(R, f, f.node, 'with both options given the index-depth arrays and the column arrays are both yielded', key=key)
    else:
        missing = 'column arrays' if src_index else 'index-depth arrays'
        ctx.bad(R, f, f.node, f'with both `{opts[0]}` and `{opts[1]}` given the {missing} are never yielded (the two sources are alternatives): the composite join key loses '
                'a part and rows are paired on the rest alone', key=key)
