'''Syntax-directed forward abstract interpreter over the statement kinds the repository uses.

Python has no goto, so a structured walk with explicit exit channels (fall-through, return,
raise, break, continue) is a CFG traversal: every entry->exit path of the function is covered,
loops are iterated to a fixpoint of the client's (finite) lattice, `try` bodies feed their
handlers with the join of every intermediate state, `finally` is replayed on every channel.

A client subclasses `Client`; the state is any value with `==`; `None` is bottom (unreachable).
Evaluation order inside expressions is respected (IfExp / BoolOp short-circuit / comprehension
conditions refine the state), because the repository writes guards as expressions too.
'''
from __future__ import annotations

import ast
import typing as tp

State = tp.Any


class Client:
    '''Override what you need.  All hooks return the new state (or None for bottom).'''

    max_loop_iter = 12

    def join(self, a: State, b: State) -> State:
        raise NotImplementedError

    # expression events -------------------------------------------------------------
    def on_expr(self, node: ast.expr, state: State) -> State:
        '''Post-order: called after the node's operands were evaluated.'''
        return state

    def refine(self, atom: ast.expr, state: State, truth: bool) -> State:
        '''State under the assumption that `atom` evaluated truthy / falsy.  None prunes.'''
        return state

    # statement events --------------------------------------------------------------
    def on_stmt(self, s: ast.stmt, state: State) -> State:
        '''Simple statements, after their expressions were evaluated.'''
        return state

    def on_bind(self, target: ast.expr, source: tp.Optional[ast.expr], state: State, kind: str) -> State:
        '''Loop / with / except / comprehension bindings. kind in for|with|except|comp.'''
        return state

    def on_return(self, s: ast.Return, state: State) -> None:
        pass

    def on_raise(self, s: ast.stmt, state: State) -> None:
        pass

    def on_yield(self, node: ast.expr, state: State) -> State:
        return state

    def enter_stmt(self, s: ast.stmt, state: State) -> State:
        return state


class Exits:
    __slots__ = ('fall', 'returns', 'raises', 'breaks', 'continues')

    def __init__(self):
        self.fall: State = None
        self.returns: tp.List[tp.Tuple[ast.stmt, State]] = []
        self.raises: tp.List[tp.Tuple[ast.stmt, State]] = []
        self.breaks: tp.List[State] = []
        self.continues: tp.List[State] = []


class Engine:
    def __init__(self, client: Client):
        self.c = client
        self._try_taps: tp.List[tp.List[State]] = []

    # ------------------------------------------------------------------ helpers
    def j(self, a: State, b: State) -> State:
        if a is None:
            return b
        if b is None:
            return a
        return self.c.join(a, b)

    def jmany(self, states: tp.Iterable[State]) -> State:
        out = None
        for s in states:
            out = self.j(out, s)
        return out

    def _tap(self, state: State) -> None:
        if state is None:
            return
        for t in self._try_taps:
            t.append(state)

    # ------------------------------------------------------------------ expressions
    def expr(self, e: tp.Optional[ast.AST], st: State) -> State:
        if e is None or st is None:
            return st
        c = self.c
        if isinstance(e, ast.IfExp):
            t, f = self.cond(e.test, st)
            a = self.expr(e.body, t)
            b = self.expr(e.orelse, f)
            st = self.j(a, b)
            return c.on_expr(e, st) if st is not None else None
        if isinstance(e, ast.BoolOp):
            # value of a BoolOp used as an expression: evaluate with short-circuit
            cur = st
            outs = []
            for i, v in enumerate(e.values):
                cur = self.expr(v, cur) if not _is_condlike(v) else cur
                if cur is None:
                    break
                if i == len(e.values) - 1:
                    if _is_condlike(v):
                        t, f = self.cond(v, cur)
                        cur = self.j(t, f)
                    outs.append(cur)
                    break
                t, f = self.cond(v, cur) if _is_condlike(v) else (
                    c.refine(v, cur, True), c.refine(v, cur, False))
                if isinstance(e.op, ast.And):
                    outs.append(f)
                    cur = t
                else:
                    outs.append(t)
                    cur = f
            st = self.jmany(outs)
            return c.on_expr(e, st) if st is not None else None
        if isinstance(e, ast.Lambda):
            return c.on_expr(e, st)
        if isinstance(e, (ast.ListComp, ast.SetComp, ast.GeneratorExp, ast.DictComp)):
            cur = st
            for gen in e.generators:
                cur = self.expr(gen.iter, cur)
                if cur is None:
                    return None
                cur = c.on_bind(gen.target, gen.iter, cur, 'comp')
                for cond in gen.ifs:
                    t, _f = self.cond(cond, cur)
                    cur = t if t is not None else cur
            if isinstance(e, ast.DictComp):
                inner = self.expr(e.key, cur)
                inner = self.expr(e.value, inner)
            else:
                inner = self.expr(e.elt, cur)
            # the body may run zero times
            st = self.j(st, inner)
            return c.on_expr(e, st) if st is not None else None
        if isinstance(e, (ast.Yield, ast.YieldFrom)):
            st = self.expr(e.value, st)
            if st is None:
                return None
            st = c.on_expr(e, st)
            return c.on_yield(e, st) if st is not None else None
        if isinstance(e, ast.NamedExpr):
            st = self.expr(e.value, st)
            if st is None:
                return None
            st = c.on_bind(e.target, e.value, st, 'walrus')
            return c.on_expr(e, st)
        if isinstance(e, ast.Call):
            st = self.expr(e.func, st)
            for a in e.args:
                st = self.expr(a, st)
            for k in e.keywords:
                st = self.expr(k.value, st)
            return c.on_expr(e, st) if st is not None else None
        if isinstance(e, ast.expr):
            for ch in ast.iter_child_nodes(e):
                if isinstance(ch, (ast.expr, ast.keyword, ast.comprehension, ast.Starred)):
                    st = self.expr(ch, st)
                    if st is None:
                        return None
            return c.on_expr(e, st)
        if isinstance(e, ast.keyword):
            return self.expr(e.value, st)
        return st

    def cond(self, test: ast.expr, st: State) -> tp.Tuple[State, State]:
        '''-> (state if truthy, state if falsy)'''
        if st is None:
            return None, None
        if isinstance(test, ast.UnaryOp) and isinstance(test.op, ast.Not):
            t, f = self.cond(test.operand, st)
            return f, t
        if isinstance(test, ast.BoolOp):
            if isinstance(test.op, ast.And):
                cur = st
                falses = []
                for v in test.values:
                    t, f = self.cond(v, cur)
                    falses.append(f)
                    cur = t
                    if cur is None:
                        break
                return cur, self.jmany(falses)
            cur = st
            trues = []
            for v in test.values:
                t, f = self.cond(v, cur)
                trues.append(t)
                cur = f
                if cur is None:
                    break
            return self.jmany(trues), cur
        if isinstance(test, ast.NamedExpr):
            st = self.expr(test, st)
            if st is None:
                return None, None
            return self.c.refine(test, st, True), self.c.refine(test, st, False)
        st = self.expr(test, st)
        if st is None:
            return None, None
        if isinstance(test, ast.Constant):
            return (st, None) if test.value else (None, st)
        return self.c.refine(test, st, True), self.c.refine(test, st, False)

    # ------------------------------------------------------------------ statements
    def run(self, body: tp.Sequence[ast.stmt], st: State) -> Exits:
        ex = Exits()
        ex.fall = self.block(body, st, ex)
        return ex

    def block(self, body: tp.Sequence[ast.stmt], st: State, ex: Exits) -> State:
        for s in body:
            if st is None:
                return None
            self._tap(st)
            st = self.c.enter_stmt(s, st)
            st = self.stmt(s, st, ex)
        self._tap(st)
        return st

    def stmt(self, s: ast.stmt, st: State, ex: Exits) -> State:
        c = self.c
        if isinstance(s, ast.If):
            t, f = self.cond(s.test, st)
            a = self.block(s.body, t, ex)
            b = self.block(s.orelse, f, ex)
            return self.j(a, b)
        if isinstance(s, (ast.For, ast.AsyncFor)):
            st = self.expr(s.iter, st)
            if st is None:
                return None
            return self._loop(s, st, ex, is_for=True)
        if isinstance(s, ast.While):
            return self._loop(s, st, ex, is_for=False)
        if isinstance(s, ast.Try) or (hasattr(ast, 'TryStar') and isinstance(s, getattr(ast, 'TryStar'))):
            return self._try(s, st, ex)
        if isinstance(s, (ast.With, ast.AsyncWith)):
            for item in s.items:
                st = self.expr(item.context_expr, st)
                if st is None:
                    return None
                if item.optional_vars is not None:
                    st = c.on_bind(item.optional_vars, item.context_expr, st, 'with')
            return self.block(s.body, st, ex)
        if isinstance(s, ast.Return):
            st = self.expr(s.value, st)
            if st is not None:
                c.on_return(s, st)
                ex.returns.append((s, st))
            return None
        if isinstance(s, ast.Raise):
            st = self.expr(s.exc, st)
            st = self.expr(s.cause, st)
            if st is not None:
                c.on_raise(s, st)
                ex.raises.append((s, st))
            return None
        if isinstance(s, ast.Break):
            ex.breaks.append(st)
            return None
        if isinstance(s, ast.Continue):
            ex.continues.append(st)
            return None
        if isinstance(s, ast.Assert):
            t, f = self.cond(s.test, st)
            if f is not None:
                c.on_raise(s, f)
                ex.raises.append((s, f))
            return t
        if isinstance(s, (ast.FunctionDef, ast.AsyncFunctionDef, ast.ClassDef)):
            return c.on_stmt(s, st)
        if isinstance(s, ast.Assign):
            st = self.expr(s.value, st)
            for t in s.targets:
                st = self._target_exprs(t, st)
            return c.on_stmt(s, st) if st is not None else None
        if isinstance(s, ast.AugAssign):
            st = self._target_exprs(s.target, st, load_too=True)
            st = self.expr(s.value, st)
            return c.on_stmt(s, st) if st is not None else None
        if isinstance(s, ast.AnnAssign):
            st = self.expr(s.value, st)
            if s.value is not None:
                st = self._target_exprs(s.target, st)
            return c.on_stmt(s, st) if st is not None else None
        if isinstance(s, ast.Expr):
            st = self.expr(s.value, st)
            return c.on_stmt(s, st) if st is not None else None
        if isinstance(s, ast.Delete):
            for t in s.targets:
                st = self._target_exprs(t, st)
            return c.on_stmt(s, st) if st is not None else None
        if hasattr(ast, 'Match') and isinstance(s, getattr(ast, 'Match')):
            st = self.expr(s.subject, st)
            outs = [st]
            for case in s.cases:
                outs.append(self.block(case.body, st, ex))
            return self.jmany(outs)
        # Pass, Import, Global, Nonlocal ...
        return c.on_stmt(s, st)

    def _target_exprs(self, t: ast.expr, st: State, load_too: bool = False) -> State:
        '''Evaluate the sub-expressions of an assignment target (receiver and index).'''
        if st is None:
            return None
        if isinstance(t, ast.Attribute):
            st = self.expr(t.value, st)
            if load_too and st is not None:
                st = self.c.on_expr(t, st)
            return st
        if isinstance(t, ast.Subscript):
            st = self.expr(t.value, st)
            st = self.expr(t.slice, st)
            if load_too and st is not None:
                st = self.c.on_expr(t, st)
            return st
        if isinstance(t, (ast.Tuple, ast.List)):
            for e in t.elts:
                st = self._target_exprs(e, st, load_too)
            return st
        if isinstance(t, ast.Starred):
            return self._target_exprs(t.value, st, load_too)
        if load_too and isinstance(t, ast.Name):
            return self.c.on_expr(t, st)
        return st

    def _loop(self, s, st: State, ex: Exits, is_for: bool) -> State:
        c = self.c
        entry = st
        exits_false: State = None
        saved_breaks, saved_conts = ex.breaks, ex.continues
        breaks_all: tp.List[State] = []
        head = entry
        for _i in range(c.max_loop_iter):
            ex.breaks, ex.continues = [], []
            if is_for:
                body_in = c.on_bind(s.target, s.iter, head, 'for')
                exits_false = head  # iterator exhausted
            else:
                body_in, exits_false = self.cond(s.test, head)
            out = self.block(s.body, body_in, ex)
            back = self.jmany([out] + ex.continues)
            breaks_all = list(ex.breaks)
            new_head = self.j(entry, back)
            if new_head == head:
                break
            head = new_head
        else:
            # no fixpoint within the bound: let the client decide (default: keep last join)
            if hasattr(c, 'on_no_fixpoint'):
                c.on_no_fixpoint(s)
        # final exits: recompute false-exit from the stable head
        if is_for:
            exits_false = head
            if getattr(c, 'for_at_least_once', False):
                # clients that model counting loops over a positive count: the zero-iteration path is dropped
                ex.breaks, ex.continues = [], []
                body_in = c.on_bind(s.target, s.iter, head, 'for')
                out = self.block(s.body, body_in, ex)
                exits_false = self.jmany([out] + ex.continues)
                breaks_all = list(ex.breaks)
        else:
            ex.breaks, ex.continues = [], []
            _t, exits_false = self.cond(s.test, head)
        ex.breaks, ex.continues = saved_breaks, saved_conts
        after_else = self.block(s.orelse, exits_false, ex) if s.orelse else exits_false
        return self.jmany([after_else] + breaks_all)

    def _try(self, s, st: State, ex: Exits) -> State:
        c = self.c
        inner = Exits()
        tap: tp.List[State] = []
        self._try_taps.append(tap)
        try:
            body_out = self.block(s.body, st, inner)
        finally:
            self._try_taps.pop()
        # states from which an exception may be thrown inside the body
        exc_state = self.jmany(tap + [r for _n, r in inner.raises])
        catch_all = any(h.type is None or (isinstance(h.type, ast.Name) and h.type.id in
                        ('Exception', 'BaseException')) for h in s.handlers)
        else_out = self.block(s.orelse, body_out, inner) if s.orelse else body_out
        outs = [else_out]
        for h in s.handlers:
            hst = exc_state
            if hst is not None and h.name:
                hst = c.on_bind(ast.Name(id=h.name, ctx=ast.Store()), h.type, hst, 'except')
            outs.append(self.block(h.body, hst, inner))
        fall = self.jmany(outs)
        raises = list(inner.raises) if not (catch_all and s.handlers) else [
            r for r in inner.raises if not _in_body(r[0], s.body)]
        if s.finalbody:
            def fin(state: State) -> State:
                sub = Exits()
                out = self.block(s.finalbody, state, sub)
                ex.returns.extend(sub.returns)
                ex.raises.extend(sub.raises)
                ex.breaks.extend(sub.breaks)
                ex.continues.extend(sub.continues)
                return out
            fall = fin(fall) if fall is not None else None
            ex.returns.extend((n, fs) for n, r in inner.returns for fs in [fin(r)] if fs is not None)
            ex.raises.extend((n, fs) for n, r in raises for fs in [fin(r)] if fs is not None)
            ex.breaks.extend(fs for r in inner.breaks for fs in [fin(r)] if fs is not None)
            ex.continues.extend(fs for r in inner.continues for fs in [fin(r)] if fs is not None)
            # an implicit exception escaping through finally is not modelled as an exit
            if exc_state is not None and not catch_all:
                fin(exc_state)
        else:
            ex.returns.extend(inner.returns)
            ex.raises.extend(raises)
            ex.breaks.extend(inner.breaks)
            ex.continues.extend(inner.continues)
        return fall


def _in_body(node: ast.AST, body: tp.Sequence[ast.stmt]) -> bool:
    for s in body:
        for n in ast.walk(s):
            if n is node:
                return True
    return False


def _is_condlike(e: ast.expr) -> bool:
    return isinstance(e, (ast.BoolOp, ast.UnaryOp, ast.Compare, ast.NamedExpr)) and not (
        isinstance(e, ast.UnaryOp) and not isinstance(e.op, ast.Not))
