'''Seeded-variant self-test (thorough tier).

Each variant is a textual edit located inside one named function (or class / module body) of a
scratch copy of static_frame/core made under a fresh temporary directory (outside /repo and
/verif, removed before exit).  The property's rules are then run on the scratch copy:

  kind 'B' (breaking):  the run must report a violation that the unchanged tree does not have,
                        for the expected rule, naming the expected function;
  kind 'N' (benign):    the run must report no violation that the unchanged tree does not have.

A variant whose anchor text is not present in the current tree (the tree under test may itself
have been edited) is *inapplicable* and skipped; a deaf or jumpy rule is reported in `failed`
and makes the thorough check exit 2 (analysis broken), never 1.
'''
from __future__ import annotations

import ast
import concurrent.futures
import importlib
import os
import shutil
import tempfile
import typing as tp

from sfa.model import AnalysisError
from sfa.model import Program
from sfa.report import Ctx
from sfa.report import VIOLATED


def _catalogue() -> tp.List[tp.Dict[str, tp.Any]]:
    from sfa import variants
    return variants.VARIANTS


def _violations(prop: str, repo: str) -> tp.Set[tp.Tuple[str, str, str]]:
    mod = importlib.import_module(f'sfa.props.{prop.lower()}')
    prog = Program(repo)
    ctx = Ctx(prog, prop, 'quick')
    mod.run(ctx)
    return {ob.ident() for ob in ctx.obs if ob.status == VIOLATED}


def _func_span(src: str, qual: str) -> tp.Optional[tp.Tuple[int, int]]:
    '''(start, end) character offsets of Class.method / function / Class / '<module>' in src.'''
    if qual == '<module>':
        return 0, len(src)
    tree = ast.parse(src)
    parts = qual.split('.')
    node: tp.Any = tree
    for p in parts:
        found = None
        for ch in ast.walk(node) if node is not tree else tree.body:
            if isinstance(ch, (ast.FunctionDef, ast.AsyncFunctionDef, ast.ClassDef)) and ch.name == p and ch is not node:
                found = ch
                break
        if found is None:
            return None
        node = found
    lines = src.splitlines(keepends=True)
    start_line = min([node.lineno] + [d.lineno for d in getattr(node, 'decorator_list', [])])
    start = sum(len(l) for l in lines[:start_line - 1])
    end = sum(len(l) for l in lines[:node.end_lineno])
    return start, end


def apply_variant(v: tp.Dict[str, tp.Any], core_dir: str) -> bool:
    '''Apply the edit(s) of a variant to the scratch copy. False = anchor not present.'''
    edits = v.get('edits') or [v]
    staged: tp.Dict[str, str] = {}
    for e in edits:
        path = os.path.join(core_dir, e['file'])
        if not os.path.exists(path):
            return False
        src = staged.get(path)
        if src is None:
            with open(path, encoding='utf-8') as f:
                src = f.read()
        span = _func_span(src, e.get('within', '<module>'))
        if span is None:
            return False
        a, b = span
        seg = src[a:b]
        if seg.count(e['find']) < 1:
            return False
        nth = e.get('nth', 0)
        idx = -1
        for _ in range(nth + 1):
            idx = seg.find(e['find'], idx + 1)
            if idx < 0:
                return False
        seg = seg[:idx] + e['replace'] + seg[idx + len(e['find']):]
        src = src[:a] + seg + src[b:]
        try:
            ast.parse(src)
        except SyntaxError:
            raise AnalysisError(f'variant {v["id"]} does not parse after its edit')
        staged[path] = src
    for path, src in staged.items():
        with open(path, 'w', encoding='utf-8') as f:
            f.write(src)
    return True


def _run_one(args: tp.Tuple[tp.Dict[str, tp.Any], str, str, tp.FrozenSet[tp.Tuple[str, str, str]]]) -> tp.Dict[str, tp.Any]:
    v, prop, repo, base = args
    tmp = tempfile.mkdtemp(prefix='sfa-variant-')
    try:
        dst = os.path.join(tmp, 'static_frame')
        os.makedirs(dst)
        shutil.copy(os.path.join(repo, 'static_frame', '__init__.py'), dst)
        core = os.path.join(dst, 'core')
        os.makedirs(core)
        src_core = os.path.join(repo, 'static_frame', 'core')
        for fn in os.listdir(src_core):
            if fn.endswith('.py'):
                shutil.copy(os.path.join(src_core, fn), core)
        if not apply_variant(v, core):
            return {'id': v['id'], 'status': 'inapplicable', 'why': 'anchor text not present in the current tree'}
        try:
            found = _violations(prop, tmp)
        except AnalysisError as e:
            if v['kind'] == 'B' and v.get('accept_analysis_error'):
                return {'id': v['id'], 'status': 'ok', 'why': f'analysis refuses the tree: {e}'}
            return {'id': v['id'], 'status': 'failed', 'why': f'analysis error on the variant: {e}'}
        new = found - base
        if v['kind'] == 'N':
            if new:
                return {'id': v['id'], 'status': 'failed', 'why': f'benign variant raised {sorted(new)[:3]}'}
            return {'id': v['id'], 'status': 'ok', 'why': 'silent'}
        want_rule = v['expect_rule']
        want_func = v.get('expect_func')
        want_rules = (want_rule,) if isinstance(want_rule, str) else tuple(want_rule)
        hits = [x for x in new if x[0].startswith(want_rules) and (want_func is None or want_func in x[1])]
        if hits:
            return {'id': v['id'], 'status': 'ok', 'why': f'reported {hits[0][0]} at {hits[0][1]}'}
        already = [x for x in base if x[0].startswith(want_rules) and (want_func is None or want_func in x[1])]
        if already:
            return {'id': v['id'], 'status': 'inapplicable', 'why': 'the current tree already violates this rule at this site'}
        return {'id': v['id'], 'status': 'failed', 'why': f'breaking variant not reported (new violations: {sorted(new)[:3]})'}
    finally:
        shutil.rmtree(tmp, ignore_errors=True)


def run_for_property(prop: str, repo: str, jobs: int = 16) -> tp.Dict[str, tp.Any]:
    variants = [v for v in _catalogue() if prop in v['props']]
    if not variants:
        return {'variants': 0, 'note': 'no seeded variants registered for this property', 'failed': []}
    base = frozenset(_violations(prop, repo))
    work = [(v, prop, repo, base) for v in variants]
    results: tp.List[tp.Dict[str, tp.Any]] = []
    with concurrent.futures.ProcessPoolExecutor(max_workers=min(jobs, len(work))) as ex:
        for r in ex.map(_run_one, work):
            results.append(r)
    kinds = {v['id']: v['kind'] for v in variants}
    out = {
        'variants': len(variants),
        'breaking_detected': sum(1 for r in results if r['status'] == 'ok' and kinds[r['id']] == 'B'),
        'benign_silent': sum(1 for r in results if r['status'] == 'ok' and kinds[r['id']] == 'N'),
        'inapplicable': [f'{r["id"]}: {r["why"]}' for r in results if r['status'] == 'inapplicable'],
        'failed': [f'{r["id"]}: {r["why"]}' for r in results if r['status'] == 'failed'],
        'results': results,
    }
    print(f'  self-test: {out["variants"]} variants — {out["breaking_detected"]} breaking detected, '
          f'{out["benign_silent"]} benign silent, {len(out["inapplicable"])} inapplicable, {len(out["failed"])} FAILED')
    for f in out['failed']:
        print(f'    self-test FAILED {f}')
    return out
