#!/usr/bin/env python3
'''Regenerate /verif/MANIFEST.json from the property modules that exist (sfa/props/cXX.py).

A property is claimed iff its module exists and defines CLAIM = dict(text=..., note=..., technique=..., design_ref=...).
Every other property is listed under not_applicable with the reason recorded in NOT_APPLICABLE below.
'''
import importlib
import json
import os
import sys

HERE = os.path.dirname(os.path.dirname(os.path.abspath(__file__)))
sys.path.insert(0, HERE)

NOT_APPLICABLE = {
}
DEFAULT_NA = 'no static check is registered for this property yet (machinery under construction); nothing is claimed'

NOTE = ('Trusted base: Python semantics of the statement kinds modelled by sfa/flow.py; the NumPy view/copy table of '
        'DESIGN.md 1.5; automap raises on duplicate keys; Executor.map preserves submission order; call resolution by '
        'class-hierarchy analysis (by name where receiver types are unknown). Only the structural clause named in '
        'level_claimed.text is decided; the behavioural remainder is listed as not decided in DESIGN.md section 3.')


def main() -> None:
    checks = []
    na = []
    for i in range(1, 21):
        pid = f'C{i:02d}'
        path = os.path.join(HERE, 'sfa', 'props', f'{pid.lower()}.py')
        claim = None
        if os.path.exists(path):
            mod = importlib.import_module(f'sfa.props.{pid.lower()}')
            claim = getattr(mod, 'CLAIM', None)
        if claim is None:
            na.append({'property_id': pid, 'reason': NOT_APPLICABLE.get(pid, DEFAULT_NA)})
            continue
        checks.append({
            'property_id': pid,
            'quick_cmd': f'./check {pid} --tier quick',
            'thorough_cmd': f'./check {pid} --tier thorough',
            'evidence_file': f'/verif/evidence/{pid}.json',
            'replay_cmd_template': f'./check {pid} --replay {{path}}',
            'engine': 'sfa',
            'level_claimed': {
                'category': 'other',
                'text': claim['text'],
                'design_ref': claim.get('design_ref', f'DESIGN.md section 3, {pid}'),
            },
            'level_note': claim.get('note', NOTE),
            'technique': claim['technique'],
        })
    manifest = {
        'version': 1,
        'setup_cmd': 'sh -c \'P=/opt/veriftools/pyvenv/bin/python; [ -x "$P" ] || P=/venv/bin/python; "$P" -m compileall -q sfa\'',
        'hooks': {
            'guard': 'INVESTMENTSYSTEMS_STATIC_FRAME_VERIF',
            'enable': 'none: static analysis reads the source of /repo and needs no instrumentation; the guard is unused and no hook commit exists',
            'baseline_off_cmd': 'cd /repo && /venv/bin/python -m pytest -ra -q -p no:cacheprovider --timeout=900 --continue-on-collection-errors',
            'source_commits': [],
            'add_only': True,
        },
        'engines': [{
            'name': 'sfa',
            'path': '/verif/sfa',
            'serves_properties': [c['property_id'] for c in checks],
            'kind_free_text': 'repository-specific static analyser on stdlib ast: program model with MRO and call resolution, '
                              'syntax-directed forward abstract interpreter (typestate / dominance / must-pass-through), '
                              'declarative table extraction, structural symmetry comparison; three-valued obligations with instance floors',
        }],
        'checks': checks,
        'not_applicable': na,
        'notes': 'All checks are static: they parse /repo/static_frame/core on every run and never import or execute it. '
                 'Exit 0 pass (KNOWN-FINDING lines for listed findings), 1 VIOLATION, 2 ANALYSIS-ERROR. '
                 'fix: commits in /repo are recorded in /verif/known_findings.json as fixed entries.',
    }
    with open(os.path.join(HERE, 'MANIFEST.json'), 'w') as f:
        json.dump(manifest, f, indent=1)
    try:
        import jsonschema
        with open('/root/.vp/MANIFEST.schema.json') as f:
            jsonschema.validate(manifest, json.load(f))
        print('MANIFEST.json valid;', len(checks), 'claimed,', len(na), 'not applicable')
    except ImportError:
        print('MANIFEST.json written (jsonschema unavailable)')


main()
