'''C02 Index: unique labels, exact label-to-position bijection.'''
from sfa.report import Ctx
from sfa.rules import flowmisc
from sfa.rules import atomic
from sfa.rules import indexrules
from sfa.rules import own
from sfa.rules import recache

LEVEL_TEXT = (
    'Static decision of structural clauses of C02. (a) Uniqueness cannot be bypassed: in Index.__init__ the AutoMap construction is the only non-donor source of the map, its ValueError handler leads to ErrorInitIndexNonUnique on every path, the no-map (loc_is_iloc) path is reachable only from IndexAutoFactory with PositionsAllocator labels or by propagation from a map-less donor, a donor map is shared only when both indices are static, and __contains__ consults the map or the 0..n-1 range. (b) Tree form: from_labels and _from_type_blocks share the non-sequential-predecessor test and raise ErrorInitIndex. (d) IndexGO.append / datetime append / IndexLevelGO mutators update their components in lock-step and validate before mutating. (c) Coherence after growth: every read of the lazily rebuilt '
    'Index._labels/_positions, IndexHierarchy._blocks and ArrayGO._array anywhere in core is dominated by the staleness guard '
    '(forward must-dataflow over every path of every function, with ensures-fresh summaries and interprocedural '
    'requires-fresh propagation for private readers). A read without the guard serves the pre-growth arrays after an '
    'append, which breaks the label<->position bijection for that method on a grown index. Views: every view method of Index / IndexHierarchy (__len__, values, positions, __iter__, __reversed__, depth, shape, __contains__) presents the one backing label sequence (tree while stale, table when fresh). Key-steered descent: an IndexLevelGO mutator that steps into a fixed child (targets[-1]) checks that the matched key component sits at that position and raises otherwise, before mutating. Key walkers: IndexLevel membership and leaf lookup agree that a key is accepted at a leaf only when it is exhausted (no over-long tuple is a member). Sibling offsets: every loop that places IndexLevel nodes under a parent gives each the running length of its preceding siblings as offset, and level_drop recomputes lengths and offsets after cutting leaves. Reverse option: every path of TypeBlocks.axis_values that yields has consulted `reverse` (reversed() of a hierarchy, reverse column iteration of a Frame). Not decided: correctness '
    'of the AutoMap hash map, NaN/float label equality, offset arithmetic of IndexLevel.leaf_loc_to_iloc.')

CLAIM = dict(
    text=LEVEL_TEXT,
    technique='lazy-cache freshness typestate + who-may-call on the no-map path + exception-path structure of the uniqueness check + sibling agreement of the tree builders + lock-step analysis of the grow-only mutators',
    design_ref='DESIGN.md section 2.B and section 3 C02',
)


def run(ctx: Ctx) -> None:
    recache.check(ctx, 'Index', floor_reads=36)
    recache.check(ctx, 'IndexHierarchy', floor_reads=38)
    recache.check(ctx, 'ArrayGO', floor_reads=5)
    indexrules.uniqueness(ctx)
    indexrules.tree_form(ctx)
    own.c_sharing_guards(ctx, only=('Index.__init__', 'index.immutable_index_filter', 'mutable_immutable', 'container_util.index_from_optional'))
    atomic.d_atomic(ctx, only=('index.', 'index_datetime.', 'index_level.', 'array_go.'))
    indexrules.views_agree(ctx)
    indexrules.descent_follows_key(ctx)
    indexrules.leaf_exit_key_exhausted(ctx)
    indexrules.sibling_offsets_running(ctx)
    flowmisc.option_consulted(ctx)
