'''C17 path rules for Bus: load-before-expose, LRU bookkeeping lock-step, loop-variable discipline.'''
from __future__ import annotations

import ast
import typing as tp

from sfa import flow
from sfa.model import AnalysisError
from sfa.model import FuncInfo
from sfa.model import call_name
from sfa.model import kwarg
from sfa.model import norm
from sfa.model import walk_local
from sfa import roles
from sfa.report import Ctx

SERIES_READS = ('self._series.values', 'self._series.items()', 'self._series.__getitem__', 'self._series[',
                'self._series.iloc', 'self._series.loc')
METADATA = ('.dtype', '.shape', '.size', '.__len__()', '.ndim', '.nbytes')


def _mentions_series_elements(e: ast.AST) -> tp.Optional[str]:
    txt = norm(e)
    for pat in SERIES_READS:
        if pat in txt:
            return pat
    return None


def bus_load_before_expose(ctx: Ctx) -> None:
    R = 'B.bus-load-before-expose'
    ctx.rule(R, 'every Bus method that hands elements of its backing Series to the caller (return / yield) has, on every '
             'path, either loaded them (_update_series_cache_iloc, or _loaded_all known True), filtered placeholders with '
             '`is (not) FrameDeferred`, or wrapped them into a derived Bus/Series', floor=5)
    prog = ctx.prog
    bus = prog.cls('Bus')
    n_sites = 0
    for defs in bus.method_defs.values():
        for f in defs:
            if f.name in ('_update_series_cache_iloc', '__init__', '_deferred_series'):
                continue
            # locals bound to series element reads
            tainted: tp.Dict[str, str] = {}
            for n in walk_local(f.node):
                if isinstance(n, ast.Assign) and len(n.targets) == 1 and isinstance(n.targets[0], ast.Name):
                    m = _mentions_series_elements(n.value)
                    if m and not any(norm(n.value).endswith(x) for x in METADATA):
                        tainted[n.targets[0].id] = m

            class C(flow.Client):
                def __init__(self):
                    self.sites: tp.List[tp.Tuple[ast.AST, bool, str]] = []

                def join(self, a, b):
                    return a & b

                def on_expr(self, node, st):
                    if isinstance(node, ast.Call) and call_name(node) in ('self._update_series_cache_iloc', 'self._extract_iloc', 'self._extract_loc'):
                        return st | {'LOADED'}
                    return st

                def refine(self, atom, st, truth):
                    if norm(atom) == 'self._loaded_all' and truth:
                        return st | {'LOADED'}
                    return st

                def _expose(self, node: ast.AST, value: tp.Optional[ast.expr], st) -> None:
                    if value is None:
                        return
                    what = _mentions_series_elements(value)
                    if what is None:
                        for x in ast.walk(value):
                            if isinstance(x, ast.Name) and x.id in tainted:
                                what = tainted[x.id]
                    if what is None:
                        return
                    txt = norm(value)
                    if any(txt.endswith(m) for m in METADATA):
                        return
                    if isinstance(value, ast.Call) and call_name(value) in ('self._derive', 'Series', 'self.__class__', 'tp.cast', 'Frame.from_concat', 'Series.from_items', 'Frame'):
                        return
                    if 'FrameDeferred' in txt:
                        self.sites.append((node, True, what + ' (placeholders filtered)'))
                        return
                    self.sites.append((node, 'LOADED' in st, what))

                def on_return(self, s, st):
                    self._expose(s, s.value, st)

                def on_yield(self, node, st):
                    self._expose(node, node.value, st)
                    return st
            c = C()
            flow.Engine(c).run(f.body, frozenset())
            # nested generators/closures that filter on FrameDeferred are descriptors
            for node, ok, what in c.sites:
                n_sites += 1
                key = f'expose:{f.name}:{norm(node)[:70]}'
                if ok:
                    ctx.ok(R, f, node, f'{what}: loaded (or filtered) on every path', key=key)
                else:
                    ctx.bad(R, f, node, f'{f.name} hands out {what} without loading: for a Bus opened on a store the caller receives '
                            'the FrameDeferred placeholder instead of the Frame an eager load would return', key=key)


def bus_lru(ctx: Ctx) -> None:
    R = 'I.bus-lru-lockstep'
    ctx.rule(R, 'in Bus._update_series_cache_iloc the load step sets the array cell, the loaded flag and the loaded count together; '
             'the LRU touch precedes the eviction test inside the same loop body; the eviction test `loaded_count > self._max_persist` '
             'follows the load step in the loop body and evicts the oldest key while clearing the LRU entry, the loaded flag, the array '
             'cell and the count together; Bus.__init__ rejects max_persist below the number already loaded', floor=6)
    prog = ctx.prog
    f = prog.method('Bus', '_update_series_cache_iloc', inherited=False)
    # locals by role, never by name: the count is what is compared with self._max_persist, the array is the working copy of
    # self._series.values, the frame is the second loop target of the load loop
    fnode = roles.canonical(f.node, {
        'loaded_count': roles.compared_with(f.node, lambda e: norm(e) == 'self._max_persist') or roles.assigned_from(f.node, lambda e: norm(e) == 'self._loaded.sum()'),
        'array': roles.assigned_from(f.node, roles.contains_text('self._series.values')),
    })

    def load_loop(node: ast.AST) -> tp.Optional[ast.For]:
        found = None
        for lp in [n for n in node.body if isinstance(n, ast.For)]:
            if any('_loaded[' in norm(s) and '= True' in norm(s) for s in ast.walk(lp) if isinstance(s, ast.Assign)):
                found = lp
        return found
    main = load_loop(fnode)
    if main is None:
        raise AnalysisError('anchor vanished: load loop of Bus._update_series_cache_iloc')
    if isinstance(main.target, ast.Tuple) and len(main.target.elts) == 2 and isinstance(main.target.elts[1], ast.Name):
        fnode = roles.canonical(fnode, {'frame': main.target.elts[1].id})
        main = load_loop(fnode)
    body = main.body
    # positions of the top-level statements
    def find(pred) -> tp.Optional[int]:
        for i, s in enumerate(body):
            if pred(s):
                return i
        return None
    i_touch = find(lambda s: '_last_accessed[' in norm(s) and '.pop(' in norm(s))
    i_load = find(lambda s: isinstance(s, ast.If) and any('self._loaded[' in norm(x) and norm(x).endswith('= True') for x in ast.walk(s) if isinstance(x, ast.Assign)))
    i_evict = find(lambda s: isinstance(s, ast.If) and 'loaded_count > self._max_persist' in norm(s.test))
    if i_load is None:
        ctx.bad(R, f, main, 'no load step found in the loop body', key='load-step')
    else:
        ld = body[i_load]
        txts = [norm(x) for x in ast.walk(ld) if isinstance(x, (ast.Assign, ast.AugAssign))]
        need = {'array cell': any(t.startswith('array[') and '= frame' in t for t in txts),
                'loaded flag': any(t.startswith('self._loaded[') and t.endswith('= True') for t in txts),
                'count': any(t.startswith('loaded_count += 1') for t in txts)}
        missing = [k for k, v in need.items() if not v]
        guard_ok = 'not self._loaded[' in norm(ld.test)
        (ctx.ok if not missing and guard_ok else ctx.bad)(R, f, ld, 'load step sets array cell, loaded flag and count together, only for cells not yet loaded'
                                                         if not missing and guard_ok else f'load step misses {missing or "the not-yet-loaded guard"}', key='load-step')
    if i_evict is None:
        ctx.bad(R, f, main, 'no eviction step `loaded_count > self._max_persist` in the load loop: max_persist is not enforced', key='evict-step')
    else:
        ev = body[i_evict]
        txts = [norm(x) for x in ast.walk(ev) if isinstance(x, (ast.Assign, ast.AugAssign, ast.Delete))]
        need = {'LRU entry': any(t.startswith('del self._last_accessed[') for t in txts),
                'loaded flag': any(t.startswith('self._loaded[') and t.endswith('= False') for t in txts),
                'array cell': any(t.startswith('array[') and t.endswith('= FrameDeferred') for t in txts),
                'count': any(t.startswith('loaded_count -= 1') for t in txts),
                'oldest first': any('next(iter(self._last_accessed))' in t for t in txts)}
        missing = [k for k, v in need.items() if not v]
        (ctx.ok if not missing else ctx.bad)(R, f, ev, 'eviction clears LRU entry, loaded flag, array cell and count together, oldest key first'
                                             if not missing else f'eviction step misses {missing}', key='evict-step')
        strict = isinstance(ev.test, ast.BoolOp) and any(isinstance(c, ast.Compare) and isinstance(c.ops[0], ast.Gt)
                                                         and norm(c) == 'loaded_count > self._max_persist' for c in ev.test.values)
        (ctx.ok if strict else ctx.bad)(R, f, ev.test, 'evicts exactly when the count exceeds max_persist', key='evict-test')
        order_ok = i_load is not None and i_load < i_evict and (i_touch is not None and i_touch < i_evict)
        (ctx.ok if order_ok else ctx.bad)(R, f, ev, 'LRU touch and load precede the eviction test in the same iteration' if order_ok else
                                          'the eviction test does not follow the LRU touch and the load step within the loop body: the just-requested frame can be evicted '
                                          'or the limit exceeded', key='evict-order')
        top_level = not any(isinstance(s, (ast.Continue, ast.Break)) for b in body[:i_evict] for s in ast.walk(b))
        (ctx.ok if top_level else ctx.bad)(R, f, ev, 'no continue/break can skip the eviction test', key='evict-reachable')
    init = prog.method('Bus', '__init__', inherited=False)
    chk = [n for n in walk_local(init.node) if isinstance(n, ast.If) and 'max_persist <' in norm(n.test) and any(isinstance(x, ast.Raise) for x in n.body)]
    (ctx.ok if chk else ctx.bad)(R, init, init.node, 'rejects max_persist below the already-loaded count' if chk else
                                 'Bus.__init__ no longer rejects max_persist below the number of loaded Frames', key='init-check')


def loop_iterable_as_key(ctx: Ctx) -> None:
    R = 'I.loop-iterable-as-key'
    ctx.rule(R, 'inside a `for x in it` loop the iterable `it` itself is never used as a subscript key or lookup argument '
             '(per-item lookups must use the loop variable)', floor=1)
    prog = ctx.prog
    n_loops = 0
    hits = 0
    for f in prog.all_funcs():
        if isinstance(f.node, ast.Lambda):
            continue
        for n in walk_local(f.node):
            if isinstance(n, ast.For) and isinstance(n.iter, ast.Name):
                n_loops += 1
                it = n.iter.id
                for b in n.body:
                    for x in ast.walk(b):
                        if isinstance(x, ast.Subscript) and any(isinstance(y, ast.Name) and y.id == it for y in ast.walk(x.slice)):
                            hits += 1
                            ctx.bad(R, f, x, f'`{norm(x)}` indexes with the loop\'s iterable `{it}` instead of the loop variable `{norm(n.target)}`: '
                                    'every iteration looks up the same (wrong) key', key=f'{f.name}:{norm(x)}')
    # positive fixture: the rule must match a known-bad snippet on every run
    fixture = ast.parse('def g(store, config, labels):\n    for label in labels:\n        yield store.read(label, config=config[labels])\n')
    fx = [x for n in ast.walk(fixture) if isinstance(n, ast.For) for b in n.body for x in ast.walk(b)
          if isinstance(x, ast.Subscript) and any(isinstance(y, ast.Name) and y.id == n.iter.id for y in ast.walk(x.slice))]
    if len(fx) != 1:
        raise AnalysisError('positive fixture of I.loop-iterable-as-key no longer matches')
    ctx.ok(R, 'bus.<all loops>', None, f'{n_loops} for-loops over a named iterable examined, {hits} use the iterable as a key (fixture matched)',
           key='all-loops', file='static_frame/core')


def reader_consumer(ctx: Ctx) -> None:
    R = 'I.bus-reader-consumer'
    ctx.rule(R, 'the lazy label generator handed to the store reader and the loop that consumes the reader with next() walk one and the same snapshot: '
             'the generator iterates what the loop iterates, yields that iteration\'s label, and filters with exactly the test that guards next() in the loop '
             '(so the n-th Frame read is the n-th placeholder met); and the generator reads no attribute of self that the consuming loop writes '
             '(a lazily evaluated generator over live state drifts when Frames are loaded / evicted meanwhile)', floor=2)
    f = ctx.prog.method('Bus', '_update_series_cache_iloc', inherited=False)
    ex = roles.Expander(f.node)
    readers = [a for a in walk_local(f.node) if isinstance(a, ast.Assign) and isinstance(a.targets[0], ast.Name) and isinstance(a.value, ast.Call)
               and call_name(a.value) == 'self._store_reader']
    ctx.require(len(readers) >= 1, 'Bus._update_series_cache_iloc builds its chunked store reader')
    rnames = {a.targets[0].id for a in readers}
    loops = [lp for lp in walk_local(f.node) if isinstance(lp, ast.For) and any(isinstance(c, ast.Call) and call_name(c) == 'next' and c.args and isinstance(c.args[0], ast.Name)
                                                                                and c.args[0].id in rnames for c in ast.walk(lp))]
    ctx.require(len(loops) == 1, 'one loop consumes the store reader')
    lp = loops[0]
    # what the loop writes on self
    written = set()
    for s in ast.walk(lp):
        tg = s.targets if isinstance(s, ast.Assign) else [s.target] if isinstance(s, ast.AugAssign) else s.targets if isinstance(s, ast.Delete) else []
        for t in tg:
            base = t.value if isinstance(t, ast.Subscript) else t
            if isinstance(base, ast.Attribute) and isinstance(base.value, ast.Name) and base.value.id == 'self':
                written.add(base.attr)
    guard = None
    for n in ast.walk(lp):
        if isinstance(n, ast.If) and any(isinstance(c, ast.Call) and call_name(c) == 'next' and c.args and isinstance(c.args[0], ast.Name) and c.args[0].id in rnames
                                         for s in n.body for c in ast.walk(s)):
            guard = n.test
    loop_targets = [x.id for x in ast.walk(lp.target) if isinstance(x, ast.Name)]
    for n_r, a in enumerate(readers):
        gen = kwarg(a.value, 'labels')
        key = f'reader#{n_r}'
        if not isinstance(gen, ast.GeneratorExp) or len(gen.generators) != 1:
            ctx.bad(R, f, a, f'labels= is `{norm(gen)[:60]}`, not a generator over the consumed snapshot', key=key + ':shape')
            continue
        g0 = gen.generators[0]
        reads = {x.attr for x in ast.walk(gen) if isinstance(x, ast.Attribute) and isinstance(x.value, ast.Name) and x.value.id == 'self'}
        live = sorted(reads & written)
        (ctx.ok if not live else ctx.bad)(R, f, gen, 'the generator reads nothing the consuming loop writes' if not live else
                                          f'the lazy label generator reads self.{live[0]}, which the consuming loop writes while the generator is still being drained: '
                                          'labels are decided from state that changes under it', key=key + ':live-state')
        e_gen, e_loop = ex.expand(g0.iter), ex.expand(lp.iter)
        same_iter = bool(e_gen) and e_gen <= e_loop
        gen_targets = [x.id for x in ast.walk(g0.target) if isinstance(x, ast.Name)]
        problems = []
        if not same_iter:
            problems.append(f'the generator iterates `{sorted(e_gen)[0][:50]}` while the loop iterates `{sorted(e_loop)[0][:50]}`')
        if len(gen_targets) != len(loop_targets):
            problems.append('generator and loop unpack differently')
        else:
            ren = dict(zip(gen_targets, loop_targets))
            import copy
            tests = []
            for t in g0.ifs:
                t2 = copy.deepcopy(t)
                for x in ast.walk(t2):
                    if isinstance(x, ast.Name) and x.id in ren:
                        x.id = ren[x.id]
                tests.append(norm(t2))
            if guard is None or tests != [norm(guard)]:
                problems.append(f'the generator filters with {tests} but next() is guarded by `{norm(guard) if guard is not None else "nothing"}`')
            if not (isinstance(gen.elt, ast.Name) and gen_targets and gen.elt.id == gen_targets[0]):
                problems.append(f'the generator yields `{norm(gen.elt)}`, not the label of its iteration')
        (ctx.bad if problems else ctx.ok)(R, f, gen, '; '.join(problems) or 'generator and loop walk the same snapshot with the same placeholder test', key=key + ':agreement')


def member_name_inverse(ctx: Ctx) -> None:
    R = 'I.member-name-inverse'
    ctx.rule(R, 'the zip store writes each Frame under `<encoded label> + <class extension>` and lists labels from the archive\'s member names: the listing inverts '
             'exactly that — it removes the extension as a suffix (endswith / slice by its length / removesuffix); `.replace(ext, ...)`, `.split(ext)` or '
             '`.strip(ext)` also cut the extension text out of the middle of a label (`x.csv.old` comes back as `x.old` and cannot be read)', floor=1)
    prog = ctx.prog
    k = prog.cls('_StoreZip')
    # the extension attribute: right operand of `+` in the member name handed to the archive writer
    ext: tp.Set[str] = set()
    for defs in k.method_defs.values():
        for f in defs:
            for c in walk_local(f.node):
                if isinstance(c, ast.Call) and isinstance(c.func, ast.Attribute) and c.func.attr == 'writestr' and c.args:
                    a = c.args[0]
                    if isinstance(a, ast.BinOp) and isinstance(a.op, ast.Add) and isinstance(a.right, ast.Attribute) and isinstance(a.right.value, ast.Name) \
                            and a.right.value.id == f.self_name():
                        ext.add(a.right.attr)
    ctx.require(len(ext) == 1, 'the writer of _StoreZip names archive members `<label> + self.<EXT>`')
    x = next(iter(ext))
    n = 0
    for defs in k.method_defs.values():
        for f in defs:
            loops = [lp for lp in walk_local(f.node) if isinstance(lp, ast.For) and isinstance(lp.iter, ast.Call) and isinstance(lp.iter.func, ast.Attribute)
                     and lp.iter.func.attr == 'namelist']
            for lp in loops:
                n += 1
                sn = f.self_name()

                def is_ext(e: ast.AST) -> bool:
                    return isinstance(e, ast.Attribute) and e.attr == x and isinstance(e.value, ast.Name) and e.value.id == sn
                uses = [c for c in ast.walk(lp) if isinstance(c, ast.Call) and isinstance(c.func, ast.Attribute) and any(is_ext(a) for a in c.args)]
                cutters = [c for c in uses if c.func.attr in ('replace', 'split', 'rsplit', 'strip', 'rstrip', 'lstrip', 'partition', 'rpartition', 'translate')]
                suffix = [c for c in uses if c.func.attr in ('endswith', 'removesuffix')] + \
                         [c for c in ast.walk(lp) if isinstance(c, ast.Call) and call_name(c) == 'len' and c.args and is_ext(c.args[0])]
                key = f'{f.name}:namelist'
                if cutters:
                    c = cutters[0]
                    ctx.bad(R, f, c, f'`{norm(c)[:60]}` removes the extension text wherever it occurs in the member name, not only the suffix the writer appended: a label '
                            'containing the extension text does not round-trip', key=key)
                elif suffix:
                    ctx.ok(R, f, lp, f'member names are cut at the suffix (`{norm(suffix[0])[:40]}`)', key=key)
                else:
                    ctx.unk(R, f, lp, 'member names are listed without a recognised inverse of the writer\'s `+ extension`', key=key)
    ctx.require(n >= 1, 'a listing of archive member names in _StoreZip')


# exporters that deliberately write without the container's own config, one reason each
EXPORTER_CONFIG_EXCEPTIONS = {
    'to_zip_pickle': 'pickle stores whole Frames; StoreConfig options do not apply (the source says so)',
}


def exporter_config_fallback(ctx: Ctx) -> None:
    R = 'G.exporter-config-fallback'
    ctx.rule(R, 'inferred convention, confirmed and frozen: every multi-table exporter of StoreClientMixin (to_zip_tsv, to_zip_csv, to_zip_parquet, to_xlsx, to_sqlite, to_hdf5) '
             'writes with the config given by the caller or else with the container\'s own config — `config` reaches store.write after the fallback to `self._config` — so a '
             'Bus built with write-side options (include_index, label_encoder, per-label entries) exports the way it reads; 6 of 7 exporters do, the seventh is the pickle '
             'exporter (exception table)', floor=6)
    prog = ctx.prog
    k = prog.cls('StoreClientMixin')
    n = 0
    for mname, f in sorted(k.methods.items()):
        if not mname.startswith('to_') or 'config' not in f.params:
            continue
        writes = [c for c in walk_local(f.node) if isinstance(c, ast.Call) and isinstance(c.func, ast.Attribute) and c.func.attr == 'write' and kwarg(c, 'config') is not None]
        if not writes:
            continue
        n += 1
        key = f'StoreClientMixin.{mname}'
        if mname in EXPORTER_CONFIG_EXCEPTIONS:
            ctx.ok(R, f, writes[0], f'exception table: {EXPORTER_CONFIG_EXCEPTIONS[mname]}', key=key)
            continue
        ex = roles.Expander(f.node)
        got = set()
        for w in writes:
            got |= ex.expand(kwarg(w, 'config'))
        sn = f.self_name()
        falls_back = any(f'{sn}._config' in e for e in got) or any(
            isinstance(a, ast.Assign) and norm(a.targets[0]) == 'config' and f'{sn}._config' in norm(a.value) for a in walk_local(f.node))
        if falls_back:
            ctx.ok(R, f, writes[0], 'store.write gets the caller\'s config or else self._config', key=key)
        else:
            ctx.bad(R, f, writes[0], f'`{norm(writes[0])[:60]}` is given `{sorted(got)[0][:40] if got else "?"}` without the fallback to `{sn}._config`: the container\'s own '
                    'write options are dropped on export while reading still applies them', key=key)
    ctx.require(n >= 6, 'exporters of StoreClientMixin')
