#!/bin/sh
# ingest_seed.sh <worktree-name> <seed-dir-name>: copy an agent's deliverables from /tmp/seed/<wt>/_out into /verif/seeded/<name> and confirm (demo + own check, no suite)
set -e
src=/tmp/seed/$1/_out; dst=/verif/seeded/$2
mkdir -p $dst
cp $src/patch.diff $src/demo.py $src/notes.md $dst/
cd /verif && python3 tools/confirm_seed.py seeded/$2 --skip-suite 2>&1 | python3 -c "
import sys,json
t=sys.stdin.read()
i=t.find('{')
d=json.loads(t[i:])
print('$2', 'confirmed' if d.get('confirmed') else 'UNCONFIRMED', {k:(v if not isinstance(v,(list,dict)) else '...') for k,v in d.items()})
for k,v in d.items():
    if isinstance(v,dict):
        print(' ',k,{a:(b if not isinstance(b,list) else b[:2]) for a,b in v.items()})
"
