'''C14 rules: fills write only where the missing-value mask says so; the fill interfaces hand isna masks of the very blocks they fill;
dropna removes labels and data with one keep-mask derived from the isna masks.'''
from __future__ import annotations

import ast
import typing as tp

from sfa import roles
from sfa.model import AnalysisError
from sfa.model import FuncInfo
from sfa.model import call_name
from sfa.model import kwarg
from sfa.model import norm
from sfa.model import walk_local
from sfa.report import Ctx

FILL_FUNCS = (
    'type_blocks.TypeBlocks._fillna_sided_axis_0', 'type_blocks.TypeBlocks._fillna_sided_axis_1',
    'type_blocks.TypeBlocks._fillna_directional_axis_0', 'type_blocks.TypeBlocks._fillna_directional_axis_1',
    'series.Series.fillna', 'series.Series._fillna_directional', 'series.Series._fillna_sided',
)


def _taint(fn: ast.AST, seeds_pred: tp.Callable[[ast.expr], bool]) -> tp.Set[str]:
    '''Names data-dependent on an expression satisfying seeds_pred (flow-insensitive closure over assignments and loop targets).'''
    tainted: tp.Set[str] = set()

    def dirty(e: ast.AST) -> bool:
        return any((isinstance(x, ast.Name) and x.id in tainted) or (isinstance(x, ast.expr) and seeds_pred(x)) for x in ast.walk(e))

    def names(t: ast.AST) -> tp.Set[str]:
        return {x.id for x in ast.walk(t) if isinstance(x, ast.Name)}
    changed = True
    while changed:
        changed = False
        for s in ast.walk(fn):
            new: tp.Set[str] = set()
            if isinstance(s, ast.Assign) and dirty(s.value):
                for t in s.targets:
                    if isinstance(t, (ast.Name, ast.Tuple, ast.List)):
                        new |= names(t)
            elif isinstance(s, ast.AnnAssign) and s.value is not None and dirty(s.value) and isinstance(s.target, ast.Name):
                new.add(s.target.id)
            elif isinstance(s, (ast.For, ast.comprehension)) and dirty(s.iter):
                new |= names(s.target)
            elif isinstance(s, ast.AugAssign) and isinstance(s.target, ast.Name) and dirty(s.value):
                new.add(s.target.id)
            if not new <= tainted:
                tainted |= new
                changed = True
    return tainted


def mask_derived_stores(ctx: Ctx) -> None:
    R = 'I.na-mask-derived-stores'
    ctx.rule(R, 'in every fill routine each store into the array that becomes the result is addressed by an expression data-dependent on the '
             'isna_array mask of the data being filled (the mask itself, positions / slices / transitions computed from it): no cell is written '
             'regardless of whether it is missing', floor=12)
    prog = ctx.prog
    n = 0
    for qual in FILL_FUNCS:
        f = prog.func(qual)
        tainted = _taint(f.node, lambda e: isinstance(e, ast.Call) and call_name(e) == 'isna_array')
        ctx.require(bool(tainted), f'{qual} computes an isna mask')
        results = set(roles.assigned_from_all(f.node, lambda v: isinstance(v, ast.Call) and isinstance(v.func, ast.Attribute) and v.func.attr in ('copy', 'astype')))
        k = 0
        for s in ast.walk(f.node):
            tgt = s.targets[0] if isinstance(s, ast.Assign) else s.target if isinstance(s, ast.AugAssign) else None
            if not (isinstance(tgt, ast.Subscript) and isinstance(tgt.value, ast.Name) and tgt.value.id in results):
                continue
            n += 1
            k += 1
            dep = any(isinstance(x, ast.Name) and x.id in tainted for x in ast.walk(tgt.slice))
            key = f'{f.name}:store#{k}'
            (ctx.ok if dep else ctx.bad)(R, f, s, f'`{norm(tgt)[:50]}` is addressed through the missing-value mask' if dep else
                                         f'`{norm(s)[:70]}` writes the result at a location that does not depend on the missing-value mask: cells that are not missing can be overwritten', key=key)
    ctx.require(n >= 12, 'stores into fill results')


def fill_targets(ctx: Ctx) -> None:
    R = 'I.na-fill-targets'
    ctx.rule(R, 'fillna / fillna_by_values hand the Boolean-block assignment the isna_array mask of each of self\'s own blocks, in block order; '
             'isna / notna are isna_array (negated for notna) of each own block; dropna keep-locations are the negation of a condition over the unified '
             'isna mask and the Frame extracts labels and data with those same keys; count is the count of the negated isna mask', floor=8)
    prog = ctx.prog
    for m, worker in (('fillna', '_assign_from_boolean_blocks_by_unit'), ('fillna_by_values', '_assign_from_boolean_blocks_by_blocks')):
        f = prog.method('TypeBlocks', m, inherited=False)
        calls = [c for c in walk_local(f.node) if isinstance(c, ast.Call) and call_name(c) == f'self.{worker}']
        good = len(calls) == 1 and _isna_per_block(kwarg(calls[0], 'targets'))
        (ctx.ok if good else ctx.bad)(R, f, calls[0] if calls else f.node, 'targets = isna_array(b) for each own block' if good else
                                      f'the cells to fill are `{norm(kwarg(calls[0], "targets"))[:60] if calls else "?"}`, not the isna mask of each own block', key=f'TypeBlocks.{m}')
    for m, negated in (('isna', False), ('notna', True)):
        f = prog.method('TypeBlocks', m, inherited=False)
        gens = [g for g in ast.walk(f.node) if isinstance(g, ast.GeneratorExp)] + [x for nf in f.nested for x in [nf.node]]
        src = norm(f.node)
        has = 'isna_array(' in src
        neg = 'logical_not' in src or '~' in src or 'invert' in src
        good = has and (neg == negated)
        (ctx.ok if good else ctx.bad)(R, f, f.node, f'{m}: {"negated " if negated else ""}isna_array per block' if good else f'{m} is not the {"negated " if negated else ""}isna mask per block', key=f'TypeBlocks.{m}')
    f = prog.method('TypeBlocks', 'dropna_to_keep_locations', inherited=False)
    ex = roles.Expander(f.node)
    rets = [r for r in walk_local(f.node) if isinstance(r, ast.Return) and isinstance(r.value, ast.Tuple) and len(r.value.elts) == 2]
    problems = []
    if not rets:
        problems.append('no (row_key, column_key) return')
    for r in rets:
        for pos, e in enumerate(r.value.elts):
            ts = {t for t in ex.expand(e) if t != 'None'}
            if not ts:
                problems.append(f'{("row", "column")[pos]} key is never a mask')
            for t in ts:
                if not (t.startswith('np.logical_not(') and 'isna_array(' in t):
                    problems.append(f'{("row", "column")[pos]} key `{t[:50]}` is not the negation of a condition over the isna mask')
    (ctx.bad if problems else ctx.ok)(R, f, f.node, '; '.join(sorted(set(problems))) or 'keep = not condition(isna mask)', key='dropna_to_keep_locations')
    g = prog.method('Frame', 'dropna', inherited=False)
    ex = roles.Expander(g.node)
    rets = [r for r in walk_local(g.node) if isinstance(r, ast.Return) and isinstance(r.value, ast.Call) and call_name(r.value) == 'self._extract']
    good = bool(rets) and all(len(r.value.args) == 2 and [ex.expand(a) for a in r.value.args] ==
                              [{'self._blocks.dropna_to_keep_locations(axis=axis, condition=condition)[0]'}, {'self._blocks.dropna_to_keep_locations(axis=axis, condition=condition)[1]'}] for r in rets)
    (ctx.ok if good else ctx.bad)(R, g, rets[0] if rets else g.node, 'labels and data extracted with the keep-locations of the caller\'s axis and condition, in (row, column) order' if good else
                                  'Frame.dropna does not extract with (row_key, column_key) from dropna_to_keep_locations(axis, condition)', key='Frame.dropna')
    # the shortcut that returns self requires that nothing is dropped
    shortcut = [r for r in walk_local(g.node) if isinstance(r, ast.Return) and norm(r.value) == 'self']
    from sfa.rules.frozen import _enclosing_tests
    ok_short = all(any('.all()' in norm(t) and pol for t, pol in _enclosing_tests(g.node, r)) for r in shortcut)
    (ctx.ok if ok_short else ctx.bad)(R, g, shortcut[0] if shortcut else g.node, 'self is returned only when every position is kept' if ok_short else 'self is returned although positions are dropped', key='Frame.dropna:shortcut')
    s = prog.method('Series', 'dropna', inherited=False)
    ex = roles.Expander(s.node)
    ctor = [c for c in walk_local(s.node) if isinstance(c, ast.Call) and norm(c.func) == 'self.__class__' and c.args and kwarg(c, 'index') is not None]
    keep = 'np.logical_not(isna_array(self.values))'
    good = bool(ctor) and all(ex.expand(c.args[0]) == {f'self.values[{keep}]'} and ex.expand(kwarg(c, 'index')) <= {f'self._index.loc[{keep}]', f'self._index[{keep}]', f'self._index.iloc[{keep}]'} for c in ctor)
    (ctx.ok if good else ctx.bad)(R, s, ctor[0] if ctor else s.node, 'values and labels selected by the same not-missing mask' if good else 'Series.dropna does not select values and labels with the negated isna mask', key='Series.dropna')


def _isna_per_block(e: tp.Optional[ast.expr]) -> bool:
    '''(isna_array(b) for b in self._blocks) whatever the loop variable is called.'''
    if not (isinstance(e, ast.GeneratorExp) and len(e.generators) == 1):
        return False
    g = e.generators[0]
    return norm(g.iter) == 'self._blocks' and not g.ifs and isinstance(g.target, ast.Name) and isinstance(e.elt, ast.Call) and call_name(e.elt) == 'isna_array' \
        and len(e.elt.args) >= 1 and isinstance(e.elt.args[0], ast.Name) and e.elt.args[0].id == g.target.id


def sided_slices(ctx: Ctx) -> None:
    R = 'I.na-sided-slices'
    ctx.rule(R, 'edge fills address exactly the missing run at their edge: with T = np.nonzero(~mask)[0] the positions of the present cells, the leading / '
             'forward-bridging slice is slice(0, T[0]) and the trailing / backward-bridging slice is slice(T[-1] + 1, end), selected by the routine\'s own '
             'direction flag (decided per path on the symbolic store); a run with no present cell takes the whole extent', floor=8)
    from sfa.symenv import SymEnv
    prog = ctx.prog
    n = 0
    for qual, flag in (('series.Series._fillna_sided', 'sided_leading'), ('type_blocks.TypeBlocks._fillna_sided_axis_0', 'sided_leading'),
                       ('type_blocks.TypeBlocks._fillna_sided_axis_1', 'sided_leading'), ('type_blocks.TypeBlocks._fillna_directional_axis_1', 'directional_forward')):
        f = prog.func(qual)
        ctx.require(flag in f.params, f'{qual} takes {flag}')
        sites = [a for a in ast.walk(f.node) if isinstance(a, ast.Assign) and isinstance(a.targets[0], ast.Name) and isinstance(a.value, ast.Call) and call_name(a.value) == 'slice'
                 and len(a.value.args) == 2 and any(isinstance(x, ast.Subscript) for x in ast.walk(a.value))]
        ids = {id(a) for a in sites}
        tracked = set()
        for a in sites:
            tracked |= {x.id for x in ast.walk(a.value) if isinstance(x, ast.Name)}
        for _ in range(4):
            for a in ast.walk(f.node):
                if isinstance(a, ast.Assign) and any(isinstance(x, ast.Name) and x.id in tracked for t in a.targets for x in ast.walk(t)):
                    tracked |= {x.id for x in ast.walk(a.value) if isinstance(x, ast.Name)}
        se = SymEnv(f.node, watch=lambda x: id(x) in ids, max_worlds=512, track=tracked, keep_fact=lambda t: t == flag or t.startswith('len(')).run()
        for a in sites:
            for w in sorted(se.at(a)):
                facts = se.facts(w)
                v = se.subst(a.value, dict(w[0]))
                if not (isinstance(v, ast.Call) and len(v.args) == 2):
                    continue
                lo, hi = norm(v.args[0]), norm(v.args[1])
                d = facts.get(flag)
                if d is None:
                    continue        # a re-trim of an existing slice under `limit`, not the edge selection
                if 'np.nonzero(~' not in lo + hi:
                    continue        # likewise: start/stop arithmetic on an already selected slice
                n += 1
                key = f'{f.name}:{"leading" if d else "trailing"}'
                if d:
                    good = lo == '0' and hi.startswith('np.nonzero(~') and hi.endswith('[0][0]')
                    want = 'slice(0, T[0])'
                else:
                    good = lo.startswith('np.nonzero(~') and lo.endswith('[0][-1] + 1') and (hi == 'None' or 'shape[' in hi or hi.startswith('len(') or hi == 'length')
                    want = 'slice(T[-1] + 1, end)'
                (ctx.ok if good else ctx.bad)(R, f, a, f'{want}' if good else
                                              f'with {flag}={d} the edge slice is `slice({lo[:50]}, {hi[:50]})`, expected {want}: cells outside the missing run at that edge are filled (or the run is cut short)', key=key)
    ctx.require(n >= 8, 'edge slice definitions')


# ---------------------------------------------------------------------------------------
# finite case analysis over dtype kinds

ALL_KINDS = ('b', 'i', 'u', 'f', 'c', 'm', 'M', 'O', 'S', 'U', 'V')
NULLABLE_KINDS = ('f', 'c', 'm', 'M', 'O')      # the kinds for which isna_array can answer True
MISSING_PREDICATES = ('isna_array', 'np.isnan', 'np.isnat', 'isna_element', 'np.not_equal')


_DTYPE_CONST_KINDS = {'DTYPE_OBJECT': 'O', 'DTYPE_BOOL': 'b', 'DTYPE_STR': 'U', 'DTYPE_INT_DEFAULT': 'i', 'DTYPE_FLOAT_DEFAULT': 'f', 'DTYPE_COMPLEX_DEFAULT': 'c'}


def _const_table(prog) -> tp.Dict[str, tp.Any]:
    '''Module-level str / tuple-of-str constants of util (DTYPE_*_KINDS and friends), resolved transitively.'''
    util = [m for m in prog.modules.values() if m.short == 'util'][0]
    table: tp.Dict[str, tp.Any] = {}
    for _ in range(3):
        for a in util.tree.body:
            if isinstance(a, ast.Assign) and len(a.targets) == 1 and isinstance(a.targets[0], ast.Name):
                v = _const_eval(a.value, table)
                if v is not None:
                    table[a.targets[0].id] = v
    return table


def _const_eval(e: ast.expr, table: tp.Mapping[str, tp.Any]) -> tp.Any:
    if isinstance(e, ast.Constant) and isinstance(e.value, str):
        return e.value
    if isinstance(e, ast.Name) and e.id in table:
        return table[e.id]
    if isinstance(e, ast.Attribute) and e.attr == 'kind' and isinstance(e.value, ast.Name) and e.value.id in _DTYPE_CONST_KINDS:
        return _DTYPE_CONST_KINDS[e.value.id]
    if isinstance(e, (ast.Tuple, ast.List, ast.Set)):
        out = []
        for x in e.elts:
            v = _const_eval(x, table)
            if v is None:
                return None
            out += list(v) if isinstance(v, (tuple, frozenset)) and isinstance(x, ast.Starred) else [v]
        flat = []
        for v in out:
            flat += list(v) if isinstance(v, (tuple, frozenset)) else [v]
        return tuple(flat)
    if isinstance(e, ast.Call) and isinstance(e.func, ast.Name) and e.func.id == 'frozenset' and len(e.args) == 1:
        v = _const_eval(e.args[0], table)
        return tuple(v) if v is not None else None
    if isinstance(e, ast.BinOp) and isinstance(e.op, ast.Add):
        a, b = _const_eval(e.left, table), _const_eval(e.right, table)
        if isinstance(a, tuple) and isinstance(b, tuple):
            return a + b
    return None


def _eval_kind_test(t: ast.expr, kind_names: tp.Set[str], k: str, table: tp.Mapping[str, tp.Any]) -> tp.Optional[bool]:
    '''Truth of a test for the concrete dtype kind k; None when the test is not (only) about the kind.'''
    def is_kind(e: ast.expr) -> bool:
        return (isinstance(e, ast.Name) and e.id in kind_names) or (isinstance(e, ast.Attribute) and e.attr == 'kind' and isinstance(e.value, ast.Attribute)
                                                                 and (e.value.attr == 'dtype' or e.value.attr.endswith('_dtype')))
    if isinstance(t, ast.BoolOp):
        vals = [_eval_kind_test(v, kind_names, k, table) for v in t.values]
        if isinstance(t.op, ast.And):
            if any(v is False for v in vals):
                return False
            return True if all(v is True for v in vals) else None
        if any(v is True for v in vals):
            return True
        return False if all(v is False for v in vals) else None
    if isinstance(t, ast.UnaryOp) and isinstance(t.op, ast.Not):
        v = _eval_kind_test(t.operand, kind_names, k, table)
        return None if v is None else not v
    # <x>.dtype == DTYPE_OBJECT / DTYPE_BOOL: a comparison of the dtype with a fixed dtype constant decides the kind for that constant's kind only
    if isinstance(t, ast.Compare) and len(t.ops) == 1 and isinstance(t.ops[0], (ast.Eq, ast.NotEq)) and isinstance(t.left, ast.Attribute) and t.left.attr == 'dtype' \
            and isinstance(t.comparators[0], ast.Name) and t.comparators[0].id in ('DTYPE_OBJECT', 'DTYPE_BOOL'):
        kk = {'DTYPE_OBJECT': 'O', 'DTYPE_BOOL': 'b'}[t.comparators[0].id]
        if k == kk:
            return isinstance(t.ops[0], ast.Eq)         # object / bool: the kind has exactly one dtype
        return isinstance(t.ops[0], ast.NotEq)
    if isinstance(t, ast.Compare) and len(t.ops) == 1 and isinstance(t.ops[0], (ast.Eq, ast.NotEq)) and is_kind(t.comparators[0]) and not is_kind(t.left):
        t = ast.Compare(left=t.comparators[0], ops=t.ops, comparators=[t.left])
    if isinstance(t, ast.Compare) and len(t.ops) == 1 and is_kind(t.left):
        rhs = _const_eval(t.comparators[0], table)
        if rhs is None:
            return None
        op = t.ops[0]
        if isinstance(op, ast.In):
            return k in rhs
        if isinstance(op, ast.NotIn):
            return k not in rhs
        if isinstance(op, ast.Eq):
            return k == rhs
        if isinstance(op, ast.NotEq):
            return k != rhs
    return None


def nullable_kinds(ctx: Ctx) -> None:
    R = 'I.nullable-kinds-consult-missing'
    ctx.rule(R, 'finite case analysis over the eleven NumPy dtype kinds: in isna_array, _ufunc_logical_skipna and the arg-extreme helpers, for each kind that can hold a '
             'missing value (float, complex, datetime64, timedelta64, object) no normal return is reachable before a missing-value predicate (isna_array / np.isnan / '
             'np.isnat / x != x) has been consulted, and in count no per-vector count is stored from the length alone — a kind-gated shortcut "this array cannot hold NaN" must not cover NaT or None', floor=12)
    from sfa import flow
    prog = ctx.prog
    table = _const_table(prog)
    ctx.require(table.get('DTYPE_INEXACT_KINDS') is not None and table.get('DTYPE_NAT_KINDS') is not None, 'dtype-kind constant tables of util')
    n = 0
    for qual in ('util.isna_array', 'util._ufunc_logical_skipna', 'util._argminmax_1d', 'util._argminmax_2d', 'frame.Frame.count', 'series.Series.count',
                 'type_blocks.TypeBlocks.equals', 'series.Series.equals', 'index.Index.equals'):
        f = prog.func(qual)
        equals_mode = f.name == 'equals'
        # equals: from the elementwise comparison of the two operands on, with skipna requested, no answer is returned before the missing masks were consulted
        _exp = roles.Expander(f.node)

        def _both_operands(v: ast.expr) -> bool:
            # the comparison relates something of self with something of other, directly or through locals (values_self == values_other)
            txts = _exp.expand(v)
            return any('self' in t and 'other' in t for t in txts)
        cmp_line = min([a.lineno for a in ast.walk(f.node) if isinstance(a, ast.Assign) and isinstance(a.value, ast.Compare) and len(a.value.ops) == 1
                        and isinstance(a.value.ops[0], ast.Eq) and _both_operands(a.value)] or [10 ** 9])
        if equals_mode:
            ctx.require(cmp_line < 10 ** 9, f'{qual} compares the operands elementwise')
        # a return inside an except handler answers for a comparison that could not be made at all
        in_handler = {id(r) for h in ast.walk(f.node) if isinstance(h, ast.ExceptHandler) for r in ast.walk(h) if isinstance(r, ast.Return)}
        kind_names = set(roles.assigned_from_all(f.node, lambda v: isinstance(v, ast.Attribute) and v.attr == 'kind'))
        counting = f.name == 'count'       # count: each result cell is a count of non-missing cells
        for k in NULLABLE_KINDS:

            class C(flow.Client):
                """state: (a missing-value predicate was consulted on every path, truth of `skipna` if known)"""

                def __init__(self):
                    self.bad: tp.List[ast.AST] = []

                def join(self, a, b):
                    return (a[0] and b[0], a[1] if a[1] == b[1] else None)

                def refine(self, atom, st, truth):
                    v = _eval_kind_test(atom, kind_names, k, table)
                    if v is not None and v != truth:
                        return None
                    if isinstance(atom, ast.Name) and atom.id == 'skipna':
                        if st[1] is not None and st[1] != truth:
                            return None
                        return (st[0], truth)
                    # `eq is False`: NumPy collapsed the comparison to a scalar — the operands are not comparable cell by cell, nothing to consult
                    if truth and isinstance(atom, ast.Compare) and len(atom.ops) == 1 and isinstance(atom.ops[0], ast.Is) \
                            and isinstance(atom.comparators[0], ast.Constant) and atom.comparators[0].value is False:
                        return (True, st[1])
                    # an empty array holds no missing value: nothing to consult on that branch
                    if truth and isinstance(atom, ast.Compare) and len(atom.ops) == 1 and isinstance(atom.ops[0], ast.Eq) and norm(atom.comparators[0]) == '0' \
                            and (call_name(atom.left) == 'len' if isinstance(atom.left, ast.Call) else norm(atom.left).endswith('.size')):
                        return (True, st[1])
                    return st

                def on_expr(self, node, st):
                    if isinstance(node, ast.Call) and (call_name(node) in MISSING_PREDICATES or (isinstance(node.func, ast.Attribute) and node.func.attr in ('isna', 'notna'))):
                        return (True, st[1])
                    if isinstance(node, ast.Compare) and len(node.ops) == 1 and isinstance(node.ops[0], ast.NotEq) and norm(node.left) == norm(node.comparators[0]):
                        return (True, st[1])
                    # an elementwise comparison with None (`array == None`); an identity test `x is None` looks at no cell
                    if isinstance(node, ast.Compare) and len(node.ops) == 1 and isinstance(node.ops[0], (ast.Eq, ast.NotEq)) \
                            and any(isinstance(c_, ast.Constant) and c_.value is None for c_ in node.comparators):
                        return (True, st[1])
                    return st

                def on_return(self, s, st):
                    if equals_mode:
                        # the analysis runs the scenario "skipna requested" (initial flag True): whatever the flag became on the way, an answer
                        # after the elementwise comparison must have consulted the missing masks
                        if s.lineno > cmp_line and not st[0] and id(s) not in in_handler:
                            self.bad.append(s)
                        return
                    if counting:
                        # count: only a count taken from the length alone, while missing cells are to be skipped, is a shortcut
                        if not st[0] and st[1] is not False and s.value is not None and any(isinstance(x, ast.Call) and call_name(x) == 'len' for x in ast.walk(s.value)):
                            self.bad.append(s)
                    elif not st[0]:
                        self.bad.append(s)

                def on_stmt(self, s, st):
                    # a flag recomputed from the kind (`skipna = kind in ...`) takes the value that test has for this kind
                    if isinstance(s, ast.Assign) and len(s.targets) == 1 and isinstance(s.targets[0], ast.Name) and s.targets[0].id == 'skipna':
                        v = _eval_kind_test(s.value, kind_names, k, table)
                        if v is None and isinstance(s.value, ast.BoolOp) and isinstance(s.value.op, ast.And):
                            # skipna and <kind test>
                            rest = [x for x in s.value.values if not (isinstance(x, ast.Name) and x.id == 'skipna')]
                            vv = [_eval_kind_test(x, kind_names, k, table) for x in rest]
                            if any(x is False for x in vv):
                                v = False
                        return (st[0], v if v is not None else st[1])
                    # count: a result cell computed from the length alone before any predicate was consulted, while missing cells are to be skipped
                    if counting and isinstance(s, ast.Assign) and isinstance(s.targets[0], ast.Subscript) and not st[0] and st[1] is not False \
                            and any(isinstance(x, ast.Call) and call_name(x) == 'len' for x in ast.walk(s.value)):
                        self.bad.append(s)
                    return st
            c = C()
            flow.Engine(c).run(f.node.body, (False, True if equals_mode else None))
            n += 1
            key = f'{f.name}:kind={k}'
            if c.bad:
                ctx.bad(R, f, c.bad[0], f'for dtype kind {k!r} (which can hold a missing value) `{norm(c.bad[0])[:60]}` is reached without any missing-value predicate having been '
                        'consulted: NaT / None / NaN in such an array is treated as an ordinary value', key=key)
            else:
                ctx.ok(R, f, f.node, f'kind {k!r}: every return follows a missing-value predicate', key=key)
    ctx.require(n >= 12, 'kind cases')


def identity_shortcut_skipna(ctx: Ctx) -> None:
    R = 'I.equals-identity-shortcut-skipna'
    ctx.rule(R, 'equals is a content equivalence: with skipna=False two missing values at the same position are not equal, so a container holding NaN does not equal '
             'its own copy — nor itself. The identity shortcut (`id(other) == id(self)` / `other is self` -> True) of every equals(..., skipna=...) is therefore taken only '
             'when skipna holds; an unconditional shortcut makes the answer depend on object identity instead of content', floor=7)
    from sfa.rules.blockrules import _enclosing_ifs
    prog = ctx.prog
    n = 0
    for f in prog.all_funcs():
        if isinstance(f.node, ast.Lambda) or f.name != 'equals' or 'skipna' not in f.params:
            continue
        sn = f.self_name()
        for r in walk_local(f.node):
            if not (isinstance(r, ast.Return) and isinstance(r.value, ast.Constant) and r.value.value is True):
                continue
            tests = _enclosing_ifs(f.node, r)

            def is_identity(t: ast.expr) -> bool:
                for x in ast.walk(t):
                    if isinstance(x, ast.Compare) and len(x.ops) == 1:
                        a, b = x.left, x.comparators[0]
                        if isinstance(x.ops[0], (ast.Eq, ast.NotEq)) and all(isinstance(y, ast.Call) and call_name(y) == 'id' and y.args for y in (a, b)) \
                                and {norm(a.args[0]), norm(b.args[0])} == {sn, 'other'}:
                            return True
                        if isinstance(x.ops[0], (ast.Is, ast.IsNot)) and {norm(a), norm(b)} == {sn, 'other'}:
                            return True
                return False
            ident = [(i, pol) for i, pol in tests if pol and is_identity(i.test)]
            if not ident:
                continue
            n += 1
            key = f'{f.qualname.split(".", 1)[1]}:identity'

            def requires_skipna(t: ast.expr) -> bool:
                if isinstance(t, ast.Name) and t.id == 'skipna':
                    return True
                return isinstance(t, ast.BoolOp) and isinstance(t.op, ast.And) and any(requires_skipna(v) for v in t.values)
            if any(pol and requires_skipna(i.test) for i, pol in tests):
                ctx.ok(R, f, r, 'the identity shortcut is taken only under skipna', key=key)
            else:
                ctx.bad(R, f, r, f'`{norm(ident[0][0].test)}` answers True whatever skipna is: with skipna=False a container holding NaN equals itself but not its copy', key=key)
    ctx.require(n >= 7, 'identity shortcuts of equals')


def carried_state_every_iteration(ctx: Ctx) -> None:
    R = 'I.na-carried-state'
    ctx.rule(R, 'the fill routines that walk blocks left to right (or right to left) carry the state of the previous block into the next (is the missing run from the edge '
             'still unbroken? what was the last observation?): a local that is read in an iteration before it is replaced (a plain assignment whose right side does not '
             'build on the local itself), and was initialised before the loop, is assigned on every path that reaches the next iteration — the end of the body and every '
             '`continue`; a block skipped with `continue` before the update (an int block "cannot hold NaN") does not end the run, and cells beyond it are filled', floor=2)
    from sfa import flow
    prog = ctx.prog
    k = prog.cls('TypeBlocks')
    n = 0
    for mname, f in sorted(k.methods.items()):
        if not mname.startswith('_fillna'):
            continue
        for lp in walk_local(f.node):
            if not isinstance(lp, ast.For):
                continue
            # outermost block loops only (loops nested in another loop of the function are per-row helpers)
            if any(isinstance(o, (ast.For, ast.While)) and o is not lp and any(y is lp for y in ast.walk(o)) for o in walk_local(f.node)):
                continue
            stores: tp.Dict[str, tp.List[ast.Assign]] = {}
            for a in ast.walk(lp):
                if isinstance(a, ast.Assign) and len(a.targets) == 1 and isinstance(a.targets[0], ast.Name) and not any(y is a for s_ in lp.orelse for y in ast.walk(s_)):
                    stores.setdefault(a.targets[0].id, []).append(a)
            before = {a.targets[0].id for a in walk_local(f.node) if isinstance(a, ast.Assign) and isinstance(a.targets[0], ast.Name) and a.lineno < lp.lineno}
            carried = []
            for nm, sts in stores.items():
                if nm not in before:
                    continue
                replaced = [a for a in sts if not any(isinstance(x, ast.Name) and x.id == nm for x in ast.walk(a.value))]
                # the replacement at the first-iteration guard (`if nm is None: nm = ...`) is an initialisation, not the per-iteration update
                from sfa.rules.blockrules import _enclosing_ifs
                updates = [a for a in sts if not any(pol and norm(i.test) == f'{nm} is None' for i, pol in _enclosing_ifs(lp, a))]
                first_read = min([x.lineno for x in ast.walk(lp) if isinstance(x, ast.Name) and x.id == nm and isinstance(x.ctx, ast.Load)] or [10 ** 9])
                last_store = max(a.lineno for a in updates) if updates else -1
                if updates and first_read < last_store and (replaced or updates):
                    carried.append(nm)
            if not carried:
                continue

            ndim_names = {a.targets[0].id for a in ast.walk(lp) if isinstance(a, ast.Assign) and isinstance(a.targets[0], ast.Name) and isinstance(a.value, ast.Attribute)
                          and a.value.attr == 'ndim'}

            class C(flow.Client):
                def join(self, a, b):
                    return a & b

                def refine(self, atom, st, truth):
                    # a block is 1-D or 2-D: `if ndim == 1: ... elif ndim == 2: ...` has no third way
                    if isinstance(atom, ast.Compare) and len(atom.ops) == 1 and isinstance(atom.ops[0], ast.Eq) and isinstance(atom.left, ast.Name) and atom.left.id in ndim_names \
                            and isinstance(atom.comparators[0], ast.Constant) and atom.comparators[0].value in (1, 2) and not truth:
                        other = f'not{3 - atom.comparators[0].value}:{atom.left.id}'
                        if other in st:
                            return None
                        return st | {f'not{atom.comparators[0].value}:{atom.left.id}'}
                    return st

                def on_stmt(self, s, st):
                    tgt = None
                    if isinstance(s, ast.Assign) and len(s.targets) == 1:
                        tgt = s.targets[0]
                    elif isinstance(s, ast.AugAssign):
                        tgt = s.target
                    if tgt is None:
                        return st
                    # a plain assignment, or a store into the carried array (N[...] = / N[...] += ...)
                    nm = tgt.id if isinstance(tgt, ast.Name) else (tgt.value.id if isinstance(tgt, ast.Subscript) and isinstance(tgt.value, ast.Name) else None)
                    if nm in carried:
                        from sfa.rules.blockrules import _enclosing_ifs as _ei
                        if not any(pol and norm(i.test) == f'{nm} is None' for i, pol in _ei(lp, s)):
                            return st | {nm}
                    return st
            c = C()
            ex = flow.Engine(c).run(lp.body, frozenset())
            ends = ([('the end of the loop body', ex.fall)] if ex.fall is not None else []) + [('a `continue`', st) for st in ex.continues]
            for nm in carried:
                n += 1
                key = f'TypeBlocks.{mname}:{nm}'
                miss = [what for what, st in ends if nm not in st]
                if miss:
                    cont = [x for x in ast.walk(lp) if isinstance(x, ast.Continue)]
                    ctx.bad(R, f, cont[0] if cont and 'continue' in miss[0] else lp, f'`{nm}` carries the state of the previous block but {miss[0]} is reached without assigning it: '
                            'the next block sees the state of an earlier block (a skipped block does not end the missing run)', key=key)
                else:
                    ctx.ok(R, f, lp, f'`{nm}` is assigned on every path to the next iteration', key=key)
    ctx.require(n >= 2, 'carried state in the block-walking fill routines')
