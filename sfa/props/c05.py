'''C05 Hierarchical index: tree and table views agree.'''
from sfa.report import Ctx
from sfa.rules import selectrules
from sfa.rules import atomic
from sfa.rules import flowmisc
from sfa.rules import indexrules
from sfa.rules import own
from sfa.rules import recache

LEVEL_TEXT = (
    'Static decision of the cache-coherence clause of C05: every read of IndexHierarchy._blocks (the lazily cached '
    'per-depth table) in the class and in its external readers, and of ArrayGO._array, sits where the staleness flag '
    'is known False or after the refresher ran, on every path; a violated obligation is a reader that serves the table '
    'from before an append/extend while the tree has grown. Also decided: the grow-only mutators of IndexHierarchyGO / IndexLevelGO / ArrayGO update tree, cached length and staleness flag in lock-step and validate before mutating; IndexHierarchy.__init__ keeps a donor level tree only when both sides are static; no dtype= argument is the class np.dtype (TypeBlocks.dtypes is on the path of every multi-row hierarchical extraction); the two tree builders (from_labels, _from_type_blocks) are structurally identical and reject a re-opened node that is not the sequential predecessor. Views: every view method of Index / IndexHierarchy (__len__, values, positions, __iter__, __reversed__, depth, shape, __contains__) presents the one backing label sequence (tree while stale, table when fresh). Cached leaf counts: an IndexLevelGO mutator that grows a node below the root resets the cached _length of every node recorded along its descent. Key-steered descent: an IndexLevelGO mutator that steps into a fixed child (targets[-1]) checks that the matched key component sits at that position and raises otherwise, before mutating. Offset accumulation: the HLoc worklist walk of IndexLevel.loc_to_iloc hands the accumulated offset (popped offset + the node\'s own) to every child it pushes and to the leaf lookup. Key walkers: IndexLevel membership and leaf lookup agree that a key is accepted at a leaf only when it is exhausted (no over-long tuple is a member). Sibling offsets: every loop that places IndexLevel nodes under a parent gives each the running length of its preceding siblings as offset, and level_drop recomputes lengths and offsets after cutting leaves. Open slice ends: under an offset (a sub-level of a hierarchy) every bound of the iloc slice LocMap.loc_to_iloc returns is explicit, so a half-open label slice at an inner depth stays inside its sub-level. Slice bounds under an offset: every start / stop position LocMap.map_slice_args yields has had the offset added on every path (exact, same-unit and coarser-unit datetime bounds). Reverse option: every path of TypeBlocks.axis_values that yields has consulted `reverse` (reversed() of a hierarchy, reverse column iteration of a Frame). Auto-integer inner levels: the map-less route of Index._loc_to_iloc with an offset raises for keys outside 0..n-1 (element, list, array), honours partial_selection and gives slices explicit bounds, like the mapped route. Not decided: HLoc resolution (offset arithmetic, partial '
    'matches, Boolean masks) and the agreement of tree and table values.')

CLAIM = dict(
    text=LEVEL_TEXT,
    technique='typestate dataflow on lazy-cache freshness over IndexHierarchy/ArrayGO readers',
    design_ref='DESIGN.md section 2.B and section 3 C05',
)


def run(ctx: Ctx) -> None:
    recache.check(ctx, 'IndexHierarchy', floor_reads=38)
    recache.check(ctx, 'ArrayGO', floor_reads=5)
    flowmisc.dtype_specifier_lint(ctx)
    atomic.d_atomic(ctx, only=('index_hierarchy.', 'index_level.', 'array_go.'))
    own.c_sharing_guards(ctx, only=('IndexHierarchy.__init__',))
    indexrules.tree_form(ctx)
    indexrules.views_agree(ctx)
    indexrules.ancestor_cache_invalidation(ctx)
    indexrules.descent_follows_key(ctx)
    indexrules.leaf_exit_key_exhausted(ctx)
    indexrules.sibling_offsets_running(ctx)
    indexrules.offset_accumulation(ctx)
    indexrules.offset_open_slice_bounded(ctx)
    selectrules.slice_bounds_offset(ctx)
    flowmisc.option_consulted(ctx)
    selectrules.nomap_offset_membership(ctx)
