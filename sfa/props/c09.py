'''C09 Grow-only containers: append-only, all-or-nothing, never shared.'''
from sfa.report import Ctx
from sfa.rules import indexrules
from sfa.rules import atomic
from sfa.rules import blockrules
from sfa.rules import frozen
from sfa.rules import own
from sfa.rules import recache

LEVEL_TEXT = (
    'Static decision of the structural clauses of C09. Never shared: every one of the ~160 own_data / own_columns / own_blocks '
    'hand-offs is checked path-relationally (worlds of (value provenance, flag) pairs) — no path hands a member of another container '
    '(x._blocks, x._columns) over with the flag True; the four keep-the-argument shortcuts are taken only when both sides are '
    'static; TypeBlocks/IndexGO growth is applied to member slots only inside their owners\' mutators; TypeBlocks.__copy__ passes shallow copies of all four members (a copy that shared the column directory would see the original\'s growth). Lock-step: in each of the 11 '
    'mutators the components that must move together are all updated on every mutating path. All-or-nothing: after the first '
    'mutation no raise is reachable, per-item loops over fallible mutators are flagged, every fallible second mutation is '
    'pre-validated (duplicate check, row count). Reads after growth: lazy caches of Index / IndexHierarchy / ArrayGO are refreshed '
    'before every read. Cached leaf counts: an IndexLevelGO mutator that grows a node below the root resets the cached _length of every node recorded along its descent. Key-steered descent: an IndexLevelGO mutator that steps into a fixed child (targets[-1]) checks that the matched key component sits at that position and raises otherwise, before mutating. Sibling offsets: IndexLevelGO.extend gives each adopted node the running length of its preceding siblings. Not decided: failures raised implicitly by NumPy or hashing (MemoryError, unhashable labels).')

CLAIM = dict(
    text=LEVEL_TEXT,
    technique='relational provenance dataflow on ownership hand-offs + who-may-call on growth + path-wise lock-step / validate-before-mutate analysis',
    design_ref='DESIGN.md sections 2.B, 2.C, 2.D and section 3 C09',
)


def run(ctx: Ctx) -> None:
    own.c_handoffs(ctx)
    own.c_who_may_grow(ctx)
    own.c_sharing_guards(ctx)
    blockrules.raw_constructor_sites(ctx)
    atomic.d_atomic(ctx)
    recache.check(ctx, 'Index', floor_reads=36)
    recache.check(ctx, 'IndexHierarchy', floor_reads=38)
    recache.check(ctx, 'ArrayGO', floor_reads=5)
    d = frozen.Driver(ctx)
    # the growth path itself must keep storage read-only
    ctx.rule('A-R1.slot-frozen', 'TypeBlocks.append / IndexGO cache refresh store only read-only arrays (see C01)', floor=3)
    for qual in ('type_blocks.TypeBlocks.append', 'index._IndexGOMixin._update_array_cache', 'array_go.ArrayGO._update_array_cache'):
        f = ctx.prog.func(qual)
        root = {'type_blocks': ('_blocks',), 'index': ('_labels', '_positions'), 'array_go': ('_array',)}[qual.split('.')[0]]
        frozen._r1_function(ctx, d, 'A-R1.slot-frozen', f, root)
    indexrules.ancestor_cache_invalidation(ctx)
    indexrules.descent_follows_key(ctx)
    indexrules.sibling_offsets_running(ctx)
