'''Array typestate evaluator shared by families A (FROZEN) and F (RESOLVE).

Abstract value of an expression = frozenset of atoms:
  'F'            read-only array (owned storage, immutable_filter result, frozen allocation)
  ('A', id)      array allocated in this function at node `id` (fresh, writable, unaliased) — frozen-ness
                 is tracked per allocation in the state (x.flags.writeable = False)
  ('P', name)    whatever the caller passed as parameter `name` (same object or a view of it)
  ('L', atoms)   list / tuple / generator / iterator whose elements have value `atoms`
  ('T', (a,..))  tuple literal with per-position values (pairs returned by helpers)
  'INT' 'SLICE'  integer / slice (basic-indexing keys)
  'NA'           not an array (None, str, bool, dtype, shape, containers of the library ...)
  'U'            unknown (unresolved callee, key of unknown kind over frozen storage ...)
A 'U' atom can make an obligation undecided, never violated.

Trusted NumPy view/copy table (DESIGN 1.5): basic indexing, .T, reshape, transpose, view return views that
inherit flags.writeable; advanced indexing, copy, astype, every np.* constructor/function result and
every operator result are fresh writable arrays.
'''
from __future__ import annotations

import ast
import typing as tp

from sfa import flow
from sfa.model import ClassInfo
from sfa.model import FuncInfo
from sfa.model import Program
from sfa.model import Resolver
from sfa.model import attr_chain
from sfa.model import call_name
from sfa.model import kwarg
from sfa.model import norm

F = 'F'
NA = 'NA'
INT = 'INT'
SLICE = 'SLICE'
U = 'U'

AV = tp.FrozenSet[tp.Any]


def av(*atoms) -> AV:
    return frozenset(atoms)


AV_F = av(F)
AV_NA = av(NA)
AV_INT = av(INT)
AV_SLICE = av(SLICE)
AV_U = av(U)

# owned array slots: class -> slot -> invariant value
OWNED = {
    'TypeBlocks': {'_blocks': av(('L', AV_F))},
    'Series': {'values': AV_F},
    'Index': {'_labels': AV_F, '_positions': AV_F},
    'ArrayGO': {'_array': AV_F},
    'PositionsAllocator': {'_array': AV_F},
}
FROZEN_CONSTANTS = {'EMPTY_ARRAY', 'EMPTY_ARRAY_BOOL', 'EMPTY_ARRAY_INT'}
SLICE_CONSTANTS = {'NULL_SLICE', 'UNIT_SLICE', 'EMPTY_SLICE'}

NP_VIEW_FUNCS = {'reshape', 'transpose', 'squeeze', 'swapaxes', 'atleast_1d', 'atleast_2d', 'asarray', 'ravel', 'broadcast_to'}
NP_NONARRAY = {'dtype', 'ndindex', 'ndenumerate', 'result_type', 'isscalar', 'datetime_data', 'errstate',
               'iinfo', 'finfo', 'issubdtype', 'can_cast', 'get_state', 'set_state', 'seed', 'nditer',
               'datetime64', 'timedelta64', 'float64', 'int64', 'bool_', 'str_', 'object_', 'shape', 'ndim', 'size',
               'random.get_state', 'random.set_state', 'random.seed', 'array_equal', 'isnat_scalar'}
ARRAY_VIEW_METHODS = {'reshape', 'view', 'transpose', 'squeeze', 'swapaxes', 'ravel', '__getitem__'}
ARRAY_FRESH_METHODS = {'copy', 'astype', 'flatten', 'round', 'cumsum', 'cumprod', 'clip', 'repeat', 'take',
                       'nonzero', 'argsort', 'conj', 'byteswap', 'newbyteorder', 'compress', 'diagonal_copy',
                       'any', 'all', 'sum', 'min', 'max', 'mean', 'prod', 'argmin', 'argmax', 'dot'}
ARRAY_NA_METHODS = {'tolist', 'item', 'tobytes', 'tostring', 'index', 'count', 'format', 'indices',
                    'get', 'keys', 'items', 'split', 'join', 'startswith', 'endswith', 'strip', '__len__', 'is_integer'}
ARRAY_NA_ATTRS = {'flags', 'dtype', 'shape', 'ndim', 'size', 'nbytes', 'kind', 'itemsize', 'start', 'stop', 'step',
                  'name', '__class__', '__name__', 'base', 'STATIC', 'depth', 'names'}
INPLACE_METHODS = {'sort', 'fill', 'put', 'resize', 'itemset', 'partition', 'setfield', 'setflags_write', 'byteswap_inplace'}
NP_INPLACE_FUNCS = {'copyto': 0, 'place': 0, 'putmask': 0, 'put': 0, 'put_along_axis': 0, 'fill_diagonal': 0}


def is_arrayish(a: AV) -> bool:
    return any(x == F or (isinstance(x, tuple) and x[0] in ('A', 'P', 'PA')) for x in a)


def elem_of(a: AV) -> AV:
    '''Value of one element obtained by iterating / integer-indexing a value.'''
    out: tp.Set[tp.Any] = set()
    for x in a:
        if isinstance(x, tuple) and x[0] == 'L':
            out |= x[1]
        elif isinstance(x, tuple) and x[0] == 'T':
            for p in x[1]:
                out |= p
        elif x == F or (isinstance(x, tuple) and x[0] in ('A', 'P', 'PA')):
            out.add(x)      # rows of an array are views (or scalars)
        elif x in (INT, SLICE):
            out.add(NA)
        else:
            out.add(x)
    return frozenset(out)


class St:
    '''State: variable environment + set of frozen allocation ids.'''
    __slots__ = ('env', 'frozen')

    def __init__(self, env: tp.Optional[tp.Dict[str, AV]] = None, frozen: tp.FrozenSet[int] = frozenset()):
        self.env: tp.Dict[str, AV] = env if env is not None else {}
        self.frozen = frozen

    def copy(self) -> 'St':
        return St(dict(self.env), self.frozen)

    def __eq__(self, other) -> bool:
        return isinstance(other, St) and self.env == other.env and self.frozen == other.frozen

    def __hash__(self) -> int:  # pragma: no cover
        return hash((tuple(sorted(self.env)), self.frozen))

    def resolve(self, a: AV) -> AV:
        '''Replace frozen allocations by F (recursively through containers).'''
        out = set()
        for x in a:
            if isinstance(x, tuple) and x[0] == 'A':
                out.add(F if x[1] in self.frozen else x)
            elif isinstance(x, tuple) and x[0] == 'L':
                out.add(('L', self.resolve(x[1])))
            elif isinstance(x, tuple) and x[0] == 'T':
                out.add(('T', tuple(self.resolve(p) for p in x[1])))
            else:
                out.add(x)
        return frozenset(out)


def join_st(a: St, b: St) -> St:
    env: tp.Dict[str, AV] = {}
    for k in set(a.env) | set(b.env):
        va, vb = a.env.get(k), b.env.get(k)
        if va is None or vb is None:
            # defined on one path only: keep what is known (an undefined name cannot be read)
            env[k] = va if vb is None else vb
        else:
            env[k] = _cap(va | vb)
    # an allocation is frozen after the join only if frozen on both paths; allocations that exist on one
    # path only keep their status from that path
    ids_a = _ids(a)
    ids_b = _ids(b)
    frozen = set()
    for i in a.frozen | b.frozen:
        in_a = i in ids_a
        in_b = i in ids_b
        if (i in a.frozen or not in_a) and (i in b.frozen or not in_b):
            frozen.add(i)
    return St(env, frozenset(frozen))


def _ids(s: St) -> tp.Set[int]:
    out: tp.Set[int] = set()

    def rec(a: AV) -> None:
        for x in a:
            if isinstance(x, tuple):
                if x[0] == 'A':
                    out.add(x[1])
                elif x[0] == 'L':
                    rec(x[1])
                elif x[0] == 'T':
                    for p in x[1]:
                        rec(p)
    for v in s.env.values():
        rec(v)
    return out


def _cap(a: AV) -> AV:
    '''Keep the lattice finite: merge multiple list atoms into one.'''
    lists = [x for x in a if isinstance(x, tuple) and x[0] == 'L']
    if len(lists) > 1:
        merged: tp.Set[tp.Any] = set()
        for l in lists:
            merged |= l[1]
        a = frozenset([x for x in a if not (isinstance(x, tuple) and x[0] == 'L')] + [('L', _cap(frozenset(merged)))])
    if len(a) > 24:
        return AV_U
    return a


class Event:
    __slots__ = ('kind', 'node', 'value', 'what', 'state')

    def __init__(self, kind: str, node: ast.AST, value: AV, what: str = '', state: tp.Optional[St] = None):
        self.kind = kind    # write | thaw | store | return | yield | freeze_param | raw_ctor | list_store | call
        self.node = node
        self.value = value
        self.what = what
        self.state = state


class Summaries:
    '''Return-value summaries of core functions, computed on demand with a recursion guard.'''

    def __init__(self, prog: Program):
        self.prog = prog
        self.res = Resolver(prog)
        self.ret: tp.Dict[str, AV] = {}
        self.in_progress: tp.Set[str] = set()
        self.stats = {'exact': 0, 'cha': 0, 'byname': 0, 'external': 0, 'unknown': 0}

    def of(self, f: FuncInfo) -> AV:
        q = f.qualname
        if q in self.ret:
            return self.ret[q]
        if q in self.in_progress:
            return AV_U
        self.in_progress.add(q)
        try:
            ev = Evaluator(self, f)
            ev.run()
            out: tp.Set[tp.Any] = set()
            if f.is_generator():
                el: tp.Set[tp.Any] = set()
                for e in ev.events:
                    if e.kind == 'yield':
                        el |= e.value
                out.add(('L', _cap(frozenset(el)) if el else AV_NA))
            else:
                for e in ev.events:
                    if e.kind == 'return':
                        out |= e.value
                if not out:
                    out.add(NA)
            r = _cap(frozenset(out))
        except RecursionError:  # pragma: no cover
            r = AV_U
        finally:
            self.in_progress.discard(q)
        self.ret[q] = r
        return r


class Evaluator(flow.Client):
    '''Runs the typestate over one function; collects events for the rule drivers.'''

    max_loop_iter = 6

    def __init__(self, sums: Summaries, f: FuncInfo, init: tp.Optional[St] = None):
        self.sums = sums
        self.prog = sums.prog
        self.f = f
        self.events: tp.List[Event] = []
        self.exit_states: tp.List[St] = []
        top = f
        while top.parent is not None:
            top = top.parent
        self.top = top
        self.cls: tp.Optional[ClassInfo] = top.cls
        self.self_name = top.self_name()
        self.init = init
        self.cur_test_stack: tp.List[ast.expr] = []

    # ------------------------------------------------------------------ driver
    def run(self) -> None:
        st = self.init.copy() if self.init is not None else St()
        node = self.f.node
        if not isinstance(node, ast.Lambda):
            a = node.args
            for p in list(getattr(a, 'posonlyargs', [])) + a.args + a.kwonlyargs:
                if p.arg == self.self_name and self.f.parent is None:
                    st.env[p.arg] = AV_NA
                    continue
                st.env[p.arg] = self._param_av(p)
            if a.vararg:
                st.env[a.vararg.arg] = av(('L', av(('P', a.vararg.arg))))
            if a.kwarg:
                st.env[a.kwarg.arg] = AV_NA
        else:
            for p in node.args.args:
                st.env[p.arg] = av(('P', p.arg))
        ex = flow.Engine(self).run(self.f.body, st)
        if ex.fall is not None:
            self.exit_states.append(ex.fall)
        for _n, s in ex.returns:
            self.exit_states.append(s)

    def _param_av(self, p: ast.arg) -> AV:
        ann = norm(p.annotation) if p.annotation is not None else ''
        if ann in ('int', 'bool', 'str', 'float'):
            return AV_INT if ann == 'int' else AV_NA
        if ann in ('slice',):
            return AV_SLICE
        if ann in ('UFunc', 'tp.Optional[UFunc]'):
            # the repository's alias UFunc = Callable[..., np.ndarray]: calling it yields a fresh array (or a scalar)
            return av(('UF', p.arg))
        if ann.replace('tp.Optional[', '').startswith(('tp.Dict', 'Dict', 'tp.Mapping', 'tp.Set', 'tp.FrozenSet')):
            return AV_NA
        if ann and not any(w in ann for w in ('ndarray', 'Iterable', 'Sequence', 'Any', 'Initializer', 'KeyType', 'Iterator',
                                              'KeyIterableTypes', 'object', 'Bloc2DKeyType', 'np.array', 'List', 'Tuple',
                                              'IndexSpecifier', 'KeyOrKeys', 'Collection', 'Generator', 'UFunc', 'Callable')):
            return AV_NA
        return av(('P', p.arg))

    # ------------------------------------------------------------------ lattice
    def join(self, a: St, b: St) -> St:
        return join_st(a, b)

    # ------------------------------------------------------------------ expression values
    def val(self, e: tp.Optional[ast.AST], st: St) -> AV:
        if e is None:
            return AV_NA
        m = getattr(self, '_v_' + type(e).__name__, None)
        if m is None:
            return AV_U
        return _cap(m(e, st))

    def _v_Constant(self, e, st):
        if isinstance(e.value, bool) or e.value is None:
            return AV_NA
        if isinstance(e.value, int):
            return AV_INT
        return AV_NA

    def _v_Name(self, e, st):
        if e.id in st.env:
            return st.env[e.id]
        if e.id in FROZEN_CONSTANTS:
            return AV_F
        if e.id in SLICE_CONSTANTS:
            return AV_SLICE
        if e.id in ('True', 'False', 'None'):
            return AV_NA
        r = self.prog.resolve_name(self.f.module, e.id)
        if isinstance(r, ast.AST):
            if isinstance(r, ast.Constant):
                return self._v_Constant(r, st)
            if isinstance(r, ast.Call) and call_name(r) == 'slice':
                return AV_SLICE
            return AV_NA
        if r is not None:
            return AV_NA  # function / class object
        return AV_U

    def _v_Attribute(self, e, st):
        path = _path(e)
        if path is not None and path in st.env:
            return st.env[path]
        if e.attr == 'T':
            return self.val(e.value, st)
        if e.attr in ('real', 'imag'):
            return self.val(e.value, st)
        if e.attr in ARRAY_NA_ATTRS:
            return AV_INT if e.attr in ('ndim', 'size', 'nbytes') else AV_NA
        # owned slots by receiver class
        ks = self.sums.res.receiver_classes(self.f, e.value)
        rp = _path(e.value)
        if rp is not None and ('@isa:' + rp) in st.env:
            ks = [self.prog.classes[x[1]] for x in st.env['@isa:' + rp] if x[1] in self.prog.classes]
        if ks:
            vals: tp.Set[tp.Any] = set()
            found = False
            for k in ks:
                for b in k.mro:
                    inv = OWNED.get(b.name, {}).get(e.attr)
                    if inv is not None:
                        vals |= inv
                        found = True
                        break
                else:
                    prop = k.lookup(e.attr)
                    if prop is not None and prop.kind == 'property':
                        vals |= self.sums.of(prop)
                        found = True
            if found:
                return frozenset(vals)
        # by name: owned slot names are unambiguous for these
        if e.attr in ('_labels', '_positions'):
            return AV_F
        if e.attr == '_blocks':
            recv0 = self.val(e.value, st)
            if recv0 and all(isinstance(x, tuple) and x[0] == 'A' for x in recv0):
                # a container produced locally by an operator call owns its blocks exclusively
                return av(('L', recv0))
            # TypeBlocks._blocks is a list of frozen arrays; Frame/IndexHierarchy._blocks is a TypeBlocks (not an array)
            return av(('L', AV_F), NA)
        if e.attr == 'values':
            return self._by_name_property('values')
        if e.attr in ('positions', 'mloc', 'dtypes', 'shapes'):
            return self._by_name_property(e.attr)
        base = self.val(e.value, st)
        if base and base <= {NA, INT, SLICE}:
            return AV_NA
        return AV_U

    def _by_name_property(self, name: str) -> AV:
        vals: tp.Set[tp.Any] = set()
        for m in self.prog.methods_by_name.get(name, []):
            if m.kind == 'property':
                vals |= self.sums.of(m)
        # slot form (Series.values)
        for cname, slots in OWNED.items():
            if name in slots:
                vals |= slots[name]
        return _cap(frozenset(vals)) if vals else AV_U

    def _v_Subscript(self, e, st):
        base = self.val(e.value, st)
        kind = self.key_kind(e.slice, st)
        out: tp.Set[tp.Any] = set()
        for x in base:
            if isinstance(x, tuple) and x[0] == 'L':
                if kind == 'basic_slice':
                    out.add(x)
                else:
                    out |= x[1]
            elif isinstance(x, tuple) and x[0] == 'T':
                idx = e.slice.value if isinstance(e.slice, ast.Constant) and isinstance(e.slice.value, int) else None
                if idx is not None and -len(x[1]) <= idx < len(x[1]):
                    out |= x[1][idx]
                else:
                    for p in x[1]:
                        out |= p
            elif x == F or (isinstance(x, tuple) and x[0] in ('A', 'P', 'PA')):
                if kind in ('basic', 'basic_slice'):
                    out.add(x)                       # a view inherits writeability
                elif kind == 'advanced':
                    out.add(('A', _nid(e)))          # advanced indexing copies
                else:
                    if isinstance(x, tuple) and x[0] == 'A':
                        out.add(x)
                        out.add(('A', _nid(e)))      # fresh either way
                    else:
                        out.add(U)
            elif x in (NA, INT, SLICE):
                out.add(NA)
            else:
                out.add(U)
        return frozenset(out) if out else AV_U

    def key_kind(self, k: ast.expr, st: St) -> str:
        '''basic (int / None / Ellipsis / tuple of basics), basic_slice, advanced, unknown'''
        if isinstance(k, ast.Slice):
            return 'basic_slice'
        if isinstance(k, ast.Tuple):
            kinds = [self.key_kind(x, st) for x in k.elts]
            if any(x == 'advanced' for x in kinds):
                return 'advanced'
            if all(x in ('basic', 'basic_slice') for x in kinds):
                return 'basic_slice' if any(x == 'basic_slice' for x in kinds) else 'basic'
            return 'unknown'
        if isinstance(k, ast.Constant):
            if k.value is None or k.value is Ellipsis or (isinstance(k.value, int) and not isinstance(k.value, bool)):
                return 'basic'
            return 'unknown'
        if isinstance(k, (ast.List, ast.ListComp)):
            return 'advanced'
        if isinstance(k, ast.UnaryOp) and isinstance(k.op, ast.Invert):
            return 'advanced' if is_arrayish(self.val(k.operand, st)) else 'unknown'
        v = self.val(k, st)
        if v and v <= {INT}:
            return 'basic'
        if v and v <= {SLICE}:
            return 'basic_slice'
        if v and v <= {INT, SLICE}:
            return 'basic_slice'
        if v and all(x == F or (isinstance(x, tuple) and x[0] in ('A', 'L')) for x in v):
            return 'advanced'
        return 'unknown'

    def _v_Tuple(self, e, st):
        if len(e.elts) <= 4 and not any(isinstance(x, ast.Starred) for x in e.elts):
            return av(('T', tuple(self.val(x, st) for x in e.elts)))
        vals: tp.Set[tp.Any] = set()
        for x in e.elts:
            vals |= self.val(x.value if isinstance(x, ast.Starred) else x, st)
        return av(('L', _cap(frozenset(vals)) if vals else AV_NA))

    def _v_List(self, e, st):
        vals: tp.Set[tp.Any] = set()
        for x in e.elts:
            vals |= self.val(x.value if isinstance(x, ast.Starred) else x, st)
        return av(('L', _cap(frozenset(vals)) if vals else frozenset()))

    _v_Set = _v_List

    def _v_Dict(self, e, st):
        return AV_NA

    def _v_JoinedStr(self, e, st):
        return AV_NA

    def _v_Lambda(self, e, st):
        return AV_NA

    def _v_Starred(self, e, st):
        return self.val(e.value, st)

    def _v_NamedExpr(self, e, st):
        return self.val(e.value, st)

    def _v_Await(self, e, st):
        return AV_U

    def _v_Yield(self, e, st):
        return AV_U

    def _comp_env(self, e, st: St) -> St:
        s2 = st.copy()
        for gen in e.generators:
            self._bind(gen.target, self._iter_elem(gen.iter, s2), s2)
        return s2

    def _v_ListComp(self, e, st):
        s2 = self._comp_env(e, st)
        return av(('L', self.val(e.elt, s2)))

    _v_GeneratorExp = _v_ListComp
    _v_SetComp = _v_ListComp

    def _v_DictComp(self, e, st):
        return AV_NA

    def _v_IfExp(self, e, st):
        return self.val(e.body, st) | self.val(e.orelse, st)

    def _v_BoolOp(self, e, st):
        out: tp.Set[tp.Any] = set()
        for v in e.values:
            out |= self.val(v, st)
        return frozenset(out)

    def _v_Compare(self, e, st):
        ops = [e.left] + list(e.comparators)
        if any(isinstance(o, (ast.Is, ast.IsNot, ast.In, ast.NotIn)) for o in e.ops):
            return AV_NA
        vals = [self.val(o, st) for o in ops]
        if any(is_arrayish(v) for v in vals):
            return av(('A', _nid(e)))
        if all(v <= {NA, INT, SLICE} for v in vals):
            return AV_NA
        return av(('A', _nid(e)), NA) if any(U in v for v in vals) else AV_NA

    def _v_BinOp(self, e, st):
        l, r = self.val(e.left, st), self.val(e.right, st)
        if is_arrayish(l) or is_arrayish(r):
            return av(('A', _nid(e)))
        if l <= {INT} and r <= {INT}:
            return AV_INT
        if l <= {NA, INT, SLICE} and r <= {NA, INT, SLICE}:
            return AV_NA
        if isinstance(e.op, ast.Add):
            # list / tuple concatenation
            ls = [x for x in (l | r) if isinstance(x, tuple) and x[0] in ('L', 'T')]
            if ls:
                return av(('L', elem_of(frozenset(ls))))
        # an operator applied to an unknown operand: a fresh array or a scalar
        return av(('A', _nid(e)), NA)

    def _v_UnaryOp(self, e, st):
        v = self.val(e.operand, st)
        if isinstance(e.op, ast.Not):
            return AV_NA
        if is_arrayish(v):
            return av(('A', _nid(e)))
        if v <= {INT}:
            return AV_INT
        if v <= {NA, INT, SLICE}:
            return AV_NA
        return av(('A', _nid(e)), NA)

    # ------------------------------------------------------------------ calls
    def _v_Call(self, e, st):
        fn = e.func
        cn = call_name(e)
        args = e.args
        # builtins / helpers
        if isinstance(fn, ast.Name):
            n = fn.id
            if n in ('len', 'int', 'abs', 'hash', 'id', 'ord', 'sum', 'min', 'max') and n in ('len', 'int', 'hash', 'id', 'ord'):
                return AV_INT
            if n in ('isinstance', 'issubclass', 'hasattr', 'callable', 'bool', 'str', 'float', 'repr', 'type',
                     'getattr_static', 'any', 'all', 'print', 'format', 'dict', 'set', 'frozenset', 'object',
                     'abs', 'sum', 'min', 'max', 'round', 'divmod', 'complex', 'super', 'open', 'next_power'):
                return AV_NA
            if n == 'slice':
                return AV_SLICE
            if n == 'range':
                return av(('L', AV_INT))
            if n in ('list', 'tuple', 'iter', 'reversed', 'sorted') and len(args) == 1:
                a = self.val(args[0], st)
                return av(('L', elem_of(a)))
            if n in ('list', 'tuple') and not args:
                return av(('L', frozenset()))
            if n in ('chain',):
                vals: tp.Set[tp.Any] = set()
                for a in args:
                    vals |= elem_of(self.val(a, st))
                return av(('L', frozenset(vals)))
            if n in ('enumerate',) and args:
                return av(('L', av(('T', (AV_INT, elem_of(self.val(args[0], st)))))))
            if n in ('zip', 'zip_longest'):
                return av(('L', av(('T', tuple(elem_of(self.val(a, st)) for a in args)))))
            if n == 'next' and args:
                return elem_of(self.val(args[0], st))
            if n == 'partial':
                return AV_NA
            if n == 'deepcopy' and args:
                # copy.deepcopy of an array yields a fresh writable array
                a = self.val(args[0], st)
                return av(('A', _nid(e))) if is_arrayish(a) else (AV_NA if a <= {NA, INT, SLICE} else av(('A', _nid(e)), NA))
            if n == 'immutable_filter':
                return AV_F
            if n == 'array_deepcopy' and args:
                # as frozen as its argument (util.array_deepcopy copies flags.writeable; checked by A-R4)
                a = self.val(args[0], st)
                out_dc: tp.Set[tp.Any] = set()
                for x in st.resolve(a):
                    if x == F:
                        out_dc.add(F)
                    elif isinstance(x, tuple) and x[0] == 'A':
                        out_dc.add(('A', _nid(e)))
                    elif x in (NA, INT, SLICE):
                        out_dc.add(NA)
                    else:
                        out_dc.add(U)
                return frozenset(out_dc) if out_dc else AV_U
            if n in st.env and any(isinstance(x, tuple) and x[0] == 'UF' for x in st.env[n]):
                out_kw0 = kwarg(e, 'out')
                if out_kw0 is not None:
                    o = self.val(out_kw0, st)
                    return o | av(('A', _nid(e))) if not is_arrayish(o) else o
                return av(('A', _nid(e)))
            if n in st.env and any(isinstance(x, tuple) and x[0] == 'P' for x in st.env[n]) and n not in ('list', 'tuple'):
                # calling a callable parameter: resolved at the call sites of this function
                return frozenset(('C', x[1]) for x in st.env[n] if isinstance(x, tuple) and x[0] == 'P')
            if n == 'getattr':
                return AV_U
            if n == 'cast' and len(args) == 2:
                return self.val(args[1], st)
        if cn.startswith('tp.cast') and len(args) == 2:
            return self.val(args[1], st)
        if cn in ('chain.from_iterable',) and args:
            return av(('L', elem_of(elem_of(self.val(args[0], st)))))
        # numpy
        ch = attr_chain(fn)
        if ch and ch[0] in ('np', 'numpy', 'npc'):
            tail = '.'.join(ch[1:])
            if tail in NP_NONARRAY or ch[-1] in NP_NONARRAY:
                return AV_NA
            if ch[-1] in NP_VIEW_FUNCS and args:
                base = self.val(args[0], st)
                return base if is_arrayish(base) else av(('A', _nid(e)))
            if ch[-1] in NP_INPLACE_FUNCS:
                return AV_NA
            out_kw = kwarg(e, 'out')
            if out_kw is not None:
                return self.val(out_kw, st)
            if ch[-1] in ('nonzero', 'meshgrid', 'divmod', 'histogram', 'broadcast_arrays', 'indices_tuple') \
                    or (ch[-1] == 'where' and len(args) == 1):
                return av(('L', av(('A', _nid(e)))))
            if ch[-1] == 'unique' and any(kwarg(e, k) is not None for k in ('return_index', 'return_inverse', 'return_counts')):
                return av(('T', (av(('A', _nid(e))), av(('A', _nid(e) + 1)), av(('A', _nid(e) + 2)))))
            return av(('A', _nid(e)))
        # method calls
        if isinstance(fn, ast.Attribute):
            m = fn.attr
            recv = self.val(fn.value, st)
            if is_arrayish(recv) or (recv and recv <= {F, U} and m in ARRAY_FRESH_METHODS | ARRAY_VIEW_METHODS and m in ('astype', 'copy', 'reshape', 'view', 'transpose')):
                if m in ARRAY_VIEW_METHODS:
                    if m == '__getitem__' and args:
                        fake = ast.Subscript(value=fn.value, slice=args[0], ctx=ast.Load())
                        ast.copy_location(fake, e)
                        return self._v_Subscript(fake, st)
                    return frozenset(x for x in recv if x != NA) or AV_U
                if m == 'astype':
                    c = kwarg(e, 'copy')
                    if c is not None and isinstance(c, ast.Constant) and c.value is False:
                        return frozenset(x for x in recv) | av(('A', _nid(e)))
                    return av(('A', _nid(e)))
                if m in ARRAY_FRESH_METHODS:
                    return av(('A', _nid(e)))
                if m in ARRAY_NA_METHODS or m in INPLACE_METHODS:
                    return AV_NA
                if m in ('__iter__', 'flat'):
                    return av(('L', elem_of(recv)))
            # list-like receivers
            if any(isinstance(x, tuple) and x[0] in ('L', 'T') for x in recv):
                if m in ('pop', '__getitem__', '__next__'):
                    return elem_of(recv)
                if m in ('copy', '__iter__', '__reversed__'):
                    return frozenset(x for x in recv if isinstance(x, tuple) and x[0] in ('L', 'T'))
                if m in ('append', 'extend', 'reverse', 'sort', 'insert', 'clear', 'remove', 'index', 'count'):
                    return AV_NA
            if m in ARRAY_NA_METHODS and recv <= {NA, INT, SLICE, U}:
                return AV_NA
            if m in ('values', 'keys', 'items') and not is_arrayish(recv):
                return av(('L', AV_U))
        # resolved core callee
        quality, targets = self.sums.res.resolve_call(self.f, e)
        self.sums.stats[quality] = self.sums.stats.get(quality, 0) + 1
        if quality == 'external':
            return AV_U
        if targets and (quality in ('exact', 'cha') or len(targets) <= 6):
            out: tp.Set[tp.Any] = set()
            for t in targets:
                if isinstance(fn, ast.Name) and isinstance(self.prog.resolve_name(self.f.module, fn.id), ClassInfo):
                    return AV_NA    # constructing a container object
                if t.name == '__init__':
                    return AV_NA
                out |= self._subst(self.sums.of(t), t, e, st)
            return _cap(frozenset(out))
        if isinstance(fn, ast.Name):
            r = self.prog.resolve_name(self.f.module, fn.id)
            if isinstance(r, ClassInfo):
                return AV_NA
            # calling a callable parameter / local
            return AV_U
        if isinstance(fn, ast.Attribute):
            ch2 = attr_chain(fn)
            if ch2 and ch2[0] in ('cls',) or norm(fn).endswith('.__class__'):
                return AV_NA
        return AV_U

    def _subst(self, summary: AV, callee: FuncInfo, call: ast.Call, st: St) -> AV:
        '''Replace ('P', name) atoms of a callee summary by the call's actual arguments.'''
        def actual(name: str) -> AV:
            for k in call.keywords:
                if k.arg == name:
                    return self.val(k.value, st)
            params = [p for p in callee.params if not p.startswith('*')]
            if callee.kind in ('method', 'property', 'classmethod') and callee.parent is None and params:
                bound = isinstance(call.func, ast.Attribute)
                if bound:
                    params = params[1:]
            if name in params:
                i = params.index(name)
                if i < len(call.args) and not any(isinstance(a, ast.Starred) for a in call.args[:i + 1]):
                    return self.val(call.args[i], st)
                d = callee.param_default(name)
                if d is not None:
                    return AV_NA
            return AV_U

        def rec(a: AV) -> AV:
            out: tp.Set[tp.Any] = set()
            for x in a:
                if isinstance(x, tuple) and x[0] == 'P':
                    out |= actual(x[1])
                elif isinstance(x, tuple) and x[0] == 'PA':
                    # the parameter itself, returned on a path where it was tested to be an ndarray
                    out |= frozenset(a for a in actual(x[1]) if a in (F, U) or (isinstance(a, tuple) and a[0] in ('A', 'P', 'PA', 'C')))
                elif isinstance(x, tuple) and x[0] == 'C':
                    out |= self._callable_result(x[1], callee, call, st)
                elif isinstance(x, tuple) and x[0] == 'A':
                    # allocation inside the callee: a fresh array owned by the caller now
                    out.add(('A', _nid(call) * 1000 + (x[1] % 997)))
                elif isinstance(x, tuple) and x[0] == 'L':
                    out.add(('L', rec(x[1])))
                elif isinstance(x, tuple) and x[0] == 'T':
                    out.add(('T', tuple(rec(p) for p in x[1])))
                else:
                    out.add(x)
            return _cap(frozenset(out))
        return rec(summary)

    def _callable_result(self, pname: str, callee: FuncInfo, call: ast.Call, st: St) -> AV:
        '''Result of calling the callable bound to parameter `pname` of callee at this call site.'''
        expr: tp.Optional[ast.expr] = None
        for k in call.keywords:
            if k.arg == pname:
                expr = k.value
        if expr is None:
            params = [p for p in callee.params if not p.startswith('*')]
            if callee.kind in ('method', 'property', 'classmethod') and callee.parent is None and params \
                    and isinstance(call.func, ast.Attribute):
                params = params[1:]
            if pname in params and params.index(pname) < len(call.args):
                expr = call.args[params.index(pname)]
        seen = 0
        while isinstance(expr, ast.Name) and seen < 4:
            seen += 1
            v = st.env.get(expr.id)
            if v is not None and any(isinstance(x, tuple) and x[0] == 'P' for x in v):
                return frozenset(('C', x[1]) for x in v if isinstance(x, tuple) and x[0] == 'P')
            defs = [n.value for n in ast.walk(self.top.node) if isinstance(n, ast.Assign)
                    and any(isinstance(t, ast.Name) and t.id == expr.id for t in n.targets)]
            if len(defs) != 1:
                return AV_U
            expr = defs[0]
        if isinstance(expr, ast.Call) and call_name(expr) == 'partial' and expr.args:
            expr = expr.args[0]
        ch = attr_chain(expr) if expr is not None else None
        if ch and ch[0] in ('np', 'numpy', 'operator_mod', 'operator', 'npc'):
            return av(('A', _nid(call) * 1000 + 991))
        return AV_U

    # ------------------------------------------------------------------ bindings
    def _iter_elem(self, it: ast.expr, st: St) -> AV:
        return elem_of(self.val(it, st))

    def _bind(self, target: ast.expr, value: AV, st: St) -> None:
        if isinstance(target, ast.Name):
            st.env[target.id] = value
        elif isinstance(target, (ast.Tuple, ast.List)):
            n = len(target.elts)
            for i, t in enumerate(target.elts):
                parts: tp.Set[tp.Any] = set()
                for x in value:
                    if isinstance(x, tuple) and x[0] == 'T' and len(x[1]) == n:
                        parts |= x[1][i]
                    elif isinstance(x, tuple) and x[0] in ('L', 'T'):
                        parts |= elem_of(frozenset([x]))
                    elif x == F or (isinstance(x, tuple) and x[0] in ('A', 'P', 'PA')):
                        parts.add(x)
                    else:
                        parts.add(U if x == U else NA)
                self._bind(t.value if isinstance(t, ast.Starred) else t, frozenset(parts) if parts else AV_U, st)
        elif isinstance(target, ast.Attribute):
            p = _path(target)
            if p is not None:
                st.env[p] = value
        # subscript targets handled as writes

    def on_bind(self, target, source, st, kind):
        st = st.copy()
        if kind in ('for', 'comp'):
            self._bind(target, self._iter_elem(source, st), st)
        elif kind == 'with':
            self._bind(target, AV_NA, st)
        elif kind == 'except':
            self._bind(target, AV_NA, st)
        else:
            self._bind(target, self.val(source, st) if source is not None else AV_U, st)
        return st

    # ------------------------------------------------------------------ statements
    def _ev(self, kind: str, node: ast.AST, value: AV, st: St, what: str = '') -> None:
        self.events.append(Event(kind, node, st.resolve(value), what, st))

    def on_stmt(self, s, st):
        if isinstance(s, ast.Assign):
            st = st.copy()
            # x.flags.writeable = <const>
            if len(s.targets) == 1 and isinstance(s.targets[0], ast.Attribute) and s.targets[0].attr == 'writeable' \
                    and isinstance(s.targets[0].value, ast.Attribute) and s.targets[0].value.attr == 'flags':
                arr = s.targets[0].value.value
                v = self.val(arr, st)
                if isinstance(s.value, ast.Constant) and s.value.value is False:
                    ids = {x[1] for x in v if isinstance(x, tuple) and x[0] == 'A'}
                    for x in v:
                        if isinstance(x, tuple) and x[0] in ('P', 'PA'):
                            self._ev('freeze_param', s, v, st, what=x[1])
                    st.frozen = st.frozen | frozenset(ids)
                    # a value that was only U / P stays as is; record that the name is now frozen
                    p = _path(arr)
                    if p is not None:
                        rest = frozenset(x for x in v if not (isinstance(x, tuple) and x[0] in ('P', 'PA')) and x != U)
                        if len(rest) != len(v):
                            st.env[p] = rest | AV_F
                elif isinstance(s.value, ast.Constant) and s.value.value is True:
                    self._ev('thaw', s, v, st, what=norm(arr))
                else:
                    # x.flags.writeable = y.flags.writeable : as frozen as y
                    self._ev('flag_copy', s, v, st, what=norm(s.value))
                return st
            value = self.val(s.value, st)
            self._reallocate(s.value, value, st)
            for t in s.targets:
                self._assign_target(t, value, s, st)
            return st
        if isinstance(s, ast.AnnAssign):
            if s.value is not None:
                st = st.copy()
                self._assign_target(s.target, self.val(s.value, st), s, st)
            return st
        if isinstance(s, ast.AugAssign):
            st = st.copy()
            t = s.target
            if isinstance(t, ast.Subscript):
                self._ev('write', s, self.val(t.value, st), st, what=norm(t.value))
            elif isinstance(t, (ast.Name, ast.Attribute)):
                v = self.val(t, st)
                if is_arrayish(v) and not (v & {NA, INT, SLICE, U}):
                    # definitely an array: `x += y` mutates it in place
                    self._ev('write', s, v, st, what=norm(t))
                elif is_arrayish(v) or U in v and not (v <= {U, NA, INT}):
                    # may be a scalar (rebinding) or an array (in place): never a violation
                    self._ev('write', s, frozenset(x for x in v if x != F) | AV_U, st, what=norm(t))
                elif v <= {INT} or v <= {NA, INT}:
                    pass
                else:
                    rv = self.val(s.value, st)
                    if isinstance(t, ast.Name):
                        if any(isinstance(x, tuple) and x[0] in ('L', 'T') for x in v):
                            st.env[t.id] = av(('L', elem_of(v) | elem_of(rv)))
            return st
        if isinstance(s, ast.Expr):
            return self._expr_stmt(s, st)
        if isinstance(s, (ast.FunctionDef, ast.AsyncFunctionDef)):
            st = st.copy()
            st.env[s.name] = AV_NA
            self._nested(s, st)
            return st
        if isinstance(s, ast.Delete):
            return st
        return st

    def _reallocate(self, expr: ast.expr, value: AV, st: St) -> None:
        '''An allocation site executed again (next loop iteration) yields a new, unfrozen object.'''
        if not st.frozen:
            return
        here = {_nid(n) for n in ast.walk(expr)}
        ids = set()

        def rec(a: AV) -> None:
            for x in a:
                if isinstance(x, tuple):
                    if x[0] == 'A' and (x[1] in here or x[1] // 1000 in here):
                        ids.add(x[1])
                    elif x[0] == 'L':
                        rec(x[1])
                    elif x[0] == 'T':
                        for p in x[1]:
                            rec(p)
        rec(value)
        if ids & st.frozen:
            st.frozen = st.frozen - frozenset(ids)

    def _assign_target(self, t: ast.expr, value: AV, s: ast.stmt, st: St) -> None:
        if isinstance(t, ast.Subscript):
            base = self.val(t.value, st)
            # writes into lists / dicts are not array writes
            if any(x == F or (isinstance(x, tuple) and x[0] in ('A', 'P', 'PA')) or x == U for x in base) \
                    and not (base <= {U} and self._looks_like_mapping(t.value)):
                self._ev('write', s, base, st, what=norm(t.value))
            elif any(isinstance(x, tuple) and x[0] == 'L' for x in base) and isinstance(t.value, ast.Name):
                st.env[t.value.id] = av(('L', elem_of(base) | value))
            return
        if isinstance(t, ast.Attribute):
            p = _path(t)
            if p is not None:
                st.env[p] = value
            self._ev('store', s, value, st, what=norm(t))
            return
        self._bind(t, value, st)

    def _looks_like_mapping(self, e: ast.expr) -> bool:
        '''U-valued containers that are plainly dicts/lists by construction in this function.'''
        if isinstance(e, ast.Name):
            for n in ast.walk(self.top.node):
                if isinstance(n, (ast.Assign, ast.AnnAssign)):
                    tg = n.targets if isinstance(n, ast.Assign) else [n.target]
                    if any(isinstance(x, ast.Name) and x.id == e.id for x in tg) and n.value is not None:
                        v = n.value
                        if isinstance(v, (ast.Dict, ast.DictComp, ast.List, ast.ListComp)):
                            return True
                        if isinstance(v, ast.Call) and call_name(v) in ('dict', 'list', 'defaultdict', 'OrderedDict', 'set'):
                            return True
        return False

    def _expr_stmt(self, s: ast.Expr, st: St) -> St:
        e = s.value
        if isinstance(e, ast.Call) and isinstance(e.func, ast.Attribute):
            m = e.func.attr
            recv_e = e.func.value
            recv = self.val(recv_e, st)
            if m in ('append', 'extend', 'insert') and e.args:
                arg = self.val(e.args[-1], st)
                add = arg if m != 'extend' else elem_of(arg)
                p = _path(recv_e)
                if p is not None and any(isinstance(x, tuple) and x[0] == 'L' for x in recv):
                    st = st.copy()
                    st.env[p] = av(('L', _cap(elem_of(frozenset(x for x in recv if isinstance(x, tuple) and x[0] == 'L')) | add)))
                self._ev('list_store', s, add, st, what=norm(recv_e))
                return st
            if m in INPLACE_METHODS and (is_arrayish(recv) or U in recv):
                if not any(isinstance(x, tuple) and x[0] in ('L', 'T') for x in recv):
                    self._ev('write', s, recv, st, what=norm(recv_e))
                return st
        if isinstance(e, ast.Call):
            ch = attr_chain(e.func)
            if ch and ch[0] in ('np', 'numpy') and ch[-1] in NP_INPLACE_FUNCS and e.args:
                self._ev('write', s, self.val(e.args[0], st), st, what=norm(e.args[0]))
            out_kw = kwarg(e, 'out')
            if out_kw is not None:
                self._ev('write', s, self.val(out_kw, st), st, what=norm(out_kw))
        return st

    def on_expr(self, node, st):
        if isinstance(node, ast.Call):
            out_kw = kwarg(node, 'out')
            # out= inside larger expressions (assignments): an in-place write too
            if out_kw is not None and not isinstance(out_kw, ast.Constant) and not isinstance(out_kw, ast.Name) \
                    or (out_kw is not None and isinstance(out_kw, ast.Name) and out_kw.id != 'out'):
                self._ev('write', node, self.val(out_kw, st), st, what=norm(out_kw))
            self._ev('call', node, AV_NA, st)
        elif isinstance(node, ast.Lambda):
            pass
        return st

    def on_yield(self, node, st):
        if isinstance(node, ast.YieldFrom):
            self._ev('yield', node, elem_of(self.val(node.value, st)), st)
        else:
            self._ev('yield', node, self.val(node.value, st), st)
        return st

    def on_return(self, s, st):
        if s.value is not None:
            self._ev('return', s, self.val(s.value, st), st)

    def refine(self, atom, st, truth):
        # `x.flags.writeable` tested: on the false branch x is read-only
        if isinstance(atom, ast.Attribute) and atom.attr == 'writeable' and isinstance(atom.value, ast.Attribute) \
                and atom.value.attr == 'flags':
            p = _path(atom.value.value)
            if p is not None and p in st.env and not truth:
                st = st.copy()
                st.env[p] = AV_F
            elif p is not None and p in st.env and truth:
                # known writable on this branch: not owned read-only storage (some caller's or local array)
                def strip(a: AV) -> AV:
                    out = set()
                    for x in a:
                        if x == F:
                            out.add(('P', '<writable>'))
                        elif isinstance(x, tuple) and x[0] == 'L':
                            out.add(('L', strip(x[1])))
                        else:
                            out.add(x)
                    return frozenset(out)
                st = st.copy()
                st.env[p] = strip(st.env[p])
            return st
        # `x is False / True / None` true branch: x is not an array
        if isinstance(atom, ast.Compare) and len(atom.ops) == 1 and isinstance(atom.ops[0], ast.Is) and truth \
                and isinstance(atom.comparators[0], ast.Constant) and atom.comparators[0].value in (False, True, None):
            p = _path(atom.left)
            if p is not None and p in st.env:
                st = st.copy()
                st.env[p] = AV_NA
            return st
        # isinstance(x, CoreClass): remember the class for attribute typing on this branch
        if isinstance(atom, ast.Call) and call_name(atom) == 'isinstance' and len(atom.args) == 2 and truth:
            names = [n.id for n in ast.walk(atom.args[1]) if isinstance(n, ast.Name)]
            p = _path(atom.args[0])
            if p is not None and names and all(n in self.prog.classes for n in names):
                st = st.copy()
                st.env['@isa:' + p] = frozenset(('K', n) for n in names)
                return st
        # `x.__class__ is np.ndarray` / isinstance(x, np.ndarray) false branch: x is not an array
        tgt = None
        if isinstance(atom, ast.Compare) and len(atom.ops) == 1 and isinstance(atom.ops[0], (ast.Is, ast.IsNot)) \
                and norm(atom.comparators[0]) in ('np.ndarray',) and isinstance(atom.left, ast.Attribute) \
                and atom.left.attr == '__class__':
            tgt = atom.left.value
            is_arr = truth if isinstance(atom.ops[0], ast.Is) else not truth
        elif isinstance(atom, ast.Call) and call_name(atom) == 'isinstance' and len(atom.args) == 2 \
                and norm(atom.args[1]) == 'np.ndarray':
            tgt = atom.args[0]
            is_arr = truth
        if tgt is not None:
            p = _path(tgt)
            if p is not None and p in st.env and is_arr:
                st = st.copy()
                st.env[p] = frozenset((('PA', x[1]) if isinstance(x, tuple) and x[0] == 'P' else x) for x in st.env[p]
                                      if not (isinstance(x, tuple) and x[0] in ('L', 'T')) and x not in (NA, INT, SLICE)) or st.env[p]
                return st
            if p is not None and p in st.env and not is_arr:
                # not an array itself — but possibly an iterable of the caller's arrays
                st = st.copy()
                ps = frozenset(x for x in st.env[p] if isinstance(x, tuple) and x[0] == 'P')
                rest = frozenset(x for x in st.env[p] if not (isinstance(x, tuple) and x[0] == 'P'))
                st.env[p] = rest | AV_NA | (av(('L', ps)) if ps else frozenset())
        return st

    def _nested(self, node, st: St) -> None:
        for nf in self.f.nested:
            if nf.node is node:
                sub = Evaluator(self.sums, nf, init=st)
                sub.run()
                for e in sub.events:
                    # events of closures are reported with the closure as site
                    e.what = e.what
                self.nested_results = getattr(self, 'nested_results', [])
                self.nested_results.append(sub)
                return


def _path(e: ast.AST) -> tp.Optional[str]:
    ch = attr_chain(e)
    return '.'.join(ch) if ch else None


def _nid(node: ast.AST) -> int:
    return getattr(node, 'lineno', 0) * 1000 + getattr(node, 'col_offset', 0)
