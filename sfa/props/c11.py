'''C11 Concatenation and overlay keep every input cell exactly once, aligned by label.'''
from sfa.report import Ctx
from sfa.rules import forwardrules
from sfa.rules import concatrules
from sfa.rules import resolve

LEVEL_TEXT = (
    'Static decision of structural clauses of C11: (a) Frame.from_concat materialises its inputs once, never reorders them, and draws '
    'both the concatenated labels and the blocks from that one sequence; along the other axis every frame is reindexed to the one shared '
    'union/intersection index with the caller\'s fill_value before its blocks are emitted; the two axis branches are mirror images '
    '(structural comparison under index<->columns renaming); (b) non-unique concatenated labels raise ErrorInitFrame (the handler '
    're-raises, never falls through); (c) values are joined with concat_resolved on both vstack strategies (and every np.concatenate '
    'is resolver-typed, F2); (d) the items forms collect frames / values in the very pass that yields (label, index) and forward them '
    'together with the built hierarchy; Series.from_concat pairs joined values with the joined index; (e) overlay walks containers in '
    'input order and changes the accumulated result only through fillna / fillna_by_values over arrays aligned to the shared index. '
    'Option forwarding: in every concatenation / overlay constructor each call to a resolved callee that accepts a parameter named like one of the function\'s own parameters passes it on (confirmed exceptions listed in sfa/rules/forwardrules.py). Sibling defaults: a parameter taken by the same-named method of several container classes has the same default in each (confirmed exceptions listed in sfa/rules/forwardrules.py). Carried dtype: the dtype under which concat_resolved / resolve_dtype_iter join their inputs is widened over every input inside the loop (never recomputed from the current input and a fixed one). Fill arrays: util.full_for_fill (behind reindex, shift and the aligned axis of concatenation) types its array by resolving the target dtype with the dtype of the fill element on every path. Not decided: strategy equivalence of vstack, union order of ufunc_set_iter, fill dtype choices.')

CLAIM = dict(
    text=LEVEL_TEXT,
    technique='single-sequence provenance of labels and blocks + mirrored-branch structural comparison + exception-path structure',
    design_ref='DESIGN.md section 3 C11',
)


def run(ctx: Ctx) -> None:
    concatrules.frame_concat(ctx)
    concatrules.items_and_series(ctx)
    concatrules.overlay(ctx)
    resolve.f2_concatenations(ctx)
    resolve.f1_loop_dtype_carried(ctx)
    forwardrules.forwarding(ctx, modules=None, prefixes=('from_concat', 'from_overlay', '_from_concat'), suffix='concat', floor=10, what='concatenation / overlay constructor')
    forwardrules.sibling_defaults(ctx, prefixes=('from_concat', 'from_overlay', '_from_concat'), suffix='concat', floor=4)
    resolve.f1_full_for_fill(ctx)
