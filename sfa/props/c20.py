'''C20 Reshaping and relational operations follow their relational definitions.'''
from sfa.report import Ctx
from sfa.rules import forwardrules
from sfa.rules import reshaperules
from sfa.rules import resolve
from sfa.rules import table

LEVEL_TEXT = (
    'Static decision of a structural clause of C20: join_inner/left/right/outer pass the like-named Join member and forward every own parameter by name; _join handles every member of Join and raises otherwise; its LEFT and RIGHT index branches are mirror images (left<->right, PairLeft<->PairRight, tuple order). Frame.pivot applies its unique-value index positionally only on paths on which the rows were brought into that index\'s order (reindex to its flat form / concatenation on it / equality test), decided per path on the symbolic store. Per path of set_index / set_index_hierarchy / unset_index: the new index is built from the addressed column(s) of self\'s own blocks in row order, drop removes the same positional key from data and labels, the hierarchy reordering applies one permutation to index and rows, unset_index puts index values and index names in front of blocks and column labels, the name is kept. Option forwarding: in every reshaping / relational interface each call to a resolved callee that accepts a parameter named like one of the function\'s own parameters passes it on (confirmed exceptions listed in sfa/rules/forwardrules.py). relabel_shift_out reads the labels of the moved levels by iterating the caller\'s depth_level in the order in which `_extract(column_key=depth_level)` delivers the arrays, and puts both in front. Dtype accumulators: a per-key dtype map filled in a loop merges repeated keys with the resolver, and a dtype that types an array built from a loop-filled list is only widened inside that loop (pivot_stack / pivot_unstack column dtypes). Join key sources: with both index depths and columns given for a side, arrays_from_index_frame yields both parts of the composite key. Not decided: the aggregation itself, pivot_stack/unstack and join matching, which are relational computations over values.')

CLAIM = dict(
    text=LEVEL_TEXT,
    technique='dispatch-table exhaustiveness + sidedness-aware mirror comparison + per-path order-evidence dataflow before positional relabel',
    design_ref='DESIGN.md section 2.G and section 3 C20',
)


def run(ctx: Ctx) -> None:
    table.t8_join(ctx)
    reshaperules.pivot_positional_relabel(ctx)
    reshaperules.set_index_pairs(ctx)
    reshaperules.relabel_shift_pairs(ctx)
    forwardrules.forwarding(ctx, modules=None, prefixes=('pivot', 'join', 'set_index', 'unset_index', 'relabel_shift', 'rehierarch', '_join', 'relabel_level'), suffix='reshape', floor=55, what='reshaping / relational interface')
    resolve.f1_dtype_accumulators(ctx)
    resolve.f1_loop_dtype_carried(ctx)
    reshaperules.join_key_sources(ctx)
